#!/venv/bin/python
"""Sensitivity sweep: runs the registered quick checks against trees that are known to break a
property, and harvests the replay files into the saved-case corpus.

  mutants.py seeds [name ...]   the independent seeded changes under /verif/seeded/<name>/
  mutants.py fixes [commit ...] /repo HEAD with one `fix:` commit reverted (the defects that
                                were repaired; commits and properties from known_findings.json)

For every mutant: a scratch worktree of /repo HEAD under /dev/shm gets the patch; the quick
check of the property (then of the properties in meta.json "also_checked_by") is run against
it through VERIF_REPO; when it reports a violation the replay file is re-run against the
mutant (must fail) and against /repo (must hold) and is then copied to
/verif/corpus/<prop>/<mutant>.json.  Results: /verif/seeded/RESULTS.tsv or FIXES.tsv and the
"detected_by" entry of the seed's meta.json.  Nothing of this is used by the registered checks
except the corpus files.
"""
import json
import os
import re
import shutil
import subprocess
import sys
import time

VERIF = "/verif"
PY = "/venv/bin/python"
RUN = f"{VERIF}/pbt/run.py"


def sh(cmd, **kw):
    return subprocess.run(cmd, capture_output=True, text=True, **kw)


def worktree(name: str) -> str:
    d = f"/dev/shm/mut-{os.getpid()}-{name}"
    r = sh(["git", "-C", "/repo", "worktree", "add", "--detach", "-q", d, "HEAD"])
    if r.returncode:
        raise RuntimeError(r.stderr)
    return d


def drop(d: str) -> None:
    sh(["git", "-C", "/repo", "worktree", "remove", "--force", d])
    shutil.rmtree(d, ignore_errors=True)


def check(d: str, prop: str, seed: str) -> dict:
    ev = f"{VERIF}/evidence/{prop}.json"
    bak = open(ev).read() if os.path.exists(ev) else None
    t0 = time.time()
    p = sh([PY, RUN, prop, "--tier", "quick"], env=dict(os.environ, VERIF_REPO=d, VERIF_SEED=seed))
    if bak is not None:
        open(ev, "w").write(bak)
    out = p.stdout
    hits = re.findall(r"VIOLATION property=(\S+) replay=(\S+)\n\s+check=(\S+) signature=(\S+)", out)
    return {"prop": prop, "rc": p.returncode, "hits": hits, "wall": round(time.time() - t0, 1), "tail": (out + p.stderr)[-1500:]}


def harvest(d: str, prop: str, name: str, hits: list) -> str:
    """-> 'saved' | why not"""
    why = "no-replay-file"
    for _, path, chk, sig in hits:
        if not os.path.exists(path):
            continue
        bad = sh([PY, RUN, prop, "--replay", path], env=dict(os.environ, VERIF_REPO=d))
        good = sh([PY, RUN, prop, "--replay", path], env=dict(os.environ, VERIF_REPO="/repo"))
        if bad.returncode == 1 and good.returncode == 0:
            os.makedirs(f"{VERIF}/corpus/{prop}", exist_ok=True)
            dst = f"{VERIF}/corpus/{prop}/{name}.json"
            if os.path.abspath(path) != dst:  # (the detection may be the replay of this very saved case)
                shutil.copyfile(path, dst)
            return "saved"
        why = f"replay-rc-mutant={bad.returncode}-repo={good.returncode}"
    return why


def one(name: str, props: list, apply) -> dict:
    d = worktree(name)
    try:
        if not apply(d):
            return {"name": name, "rc": 3, "prop": props[0], "chk": "", "sig": "PATCH-DOES-NOT-APPLY", "wall": 0, "corpus": ""}
        # the checks are randomised: a narrow change can be missed by one seed's sample and found by
        # the next.  VERIF_SEEDS (default "1") lists the seeds tried in turn; the seed that
        # detected is recorded.
        tried = []
        for seed in os.environ.get("VERIF_SEEDS", os.environ.get("VERIF_SEED", "1")).split(","):
            for prop in props:
                r = check(d, prop, seed)
                tried.append(r)
                if r["rc"] == 1:
                    break
            if tried[-1]["rc"] == 1:
                break
        r = tried[-1]
        corpus = harvest(d, r["prop"], name, r["hits"]) if r["rc"] == 1 else ""
        if r["rc"] not in (0, 1):
            print(r["tail"], file=sys.stderr)
        h = r["hits"][0] if r["hits"] else ("", "", "", "")
        return {"name": name, "rc": r["rc"], "prop": r["prop"], "chk": h[2], "sig": h[3], "all_sigs": sorted({x[3] for x in r["hits"]}), "wall": r["wall"], "corpus": corpus, "tried": [t["prop"] for t in tried], "seed": seed}
    finally:
        drop(d)
        sh(["find", f"{VERIF}/replays", "-name", "*.json", "-delete"])


def apply_patch(patch: str):
    def f(d: str) -> bool:
        if sh(["git", "-C", d, "apply", patch]).returncode == 0:
            return True
        return sh(["git", "-C", d, "apply", "-3", patch]).returncode == 0

    return f


# a later fix that touches the same lines has to be reverted first
REVERT_FIRST = {"cf0f558": ["6da2c5a"]}


def apply_revert(commit: str):
    def f(d: str) -> bool:
        for c in REVERT_FIRST.get(commit, []) + [commit]:
            p = sh(["git", "-C", "/repo", "show", "-R", "--format=", c]).stdout
            r = subprocess.run(["git", "-C", d, "apply", "-3", "-"], input=p, text=True, capture_output=True)
            if r.returncode != 0:
                return False
        return True

    return f


def seeds(names: list) -> None:
    root = f"{VERIF}/seeded"
    all_ = not names
    names = names or sorted(x for x in os.listdir(root) if re.fullmatch(r"C\d\d-\d+", x))
    rows = []
    for name in names:
        mp = f"{root}/{name}/meta.json"
        meta = json.load(open(mp))
        props = [name.split("-")[0]] + list(meta.get("also_checked_by", []))
        r = one("seed-" + name, props, apply_patch(f"{root}/{name}/patch.diff"))
        meta["detected_by"] = (
            {"check": r["prop"], "sub_check": r["chk"], "signature": r["sig"], "tier": "quick", "seed": r["seed"], "wall_s": r["wall"], "saved_case": f"corpus/{r['prop']}/seed-{name}.json" if r["corpus"] == "saved" else None}
            if r["rc"] == 1
            else {"check": None, "tried": r.get("tried"), "rc": r["rc"]}
        )
        json.dump(meta, open(mp, "w"), indent=1)
        rows.append(r)
        print(name, r["rc"], r["prop"], r["chk"], r["sig"], f"{r['wall']}s", r["corpus"], sep="\t", flush=True)
    if all_:
        with open(f"{root}/RESULTS.tsv", "w") as f:
            f.write("seed\trc\tproperty_check\tsub_check\tsignature\twall\tsaved_case\n")
            for name, r in zip(names, rows):
                f.write("\t".join(map(str, (name, r["rc"], r["prop"], r["chk"], r["sig"], f"{r['wall']}s", r["corpus"]))) + "\n")


def fixes(commits: list) -> None:
    kf = json.load(open(f"{VERIF}/known_findings.json"))["findings"]
    ents = [(e["commit"], e["property"]) for e in kf if e["status"] == "fixed" and (not commits or e["commit"] in commits)]
    rows = []
    for commit, prop in ents:
        r = one(f"fix-{commit}", [prop], apply_revert(commit))
        rows.append((commit, prop, r))
        print(commit, prop, r["rc"], r["chk"], r["sig"], f"{r['wall']}s", r["corpus"], sep="\t", flush=True)
    if not commits:
        with open(f"{VERIF}/seeded/FIXES.tsv", "w") as f:
            f.write("reverted_fix\tproperty_check\trc\tsub_check\tsignature\twall\tsaved_case\n")
            for commit, prop, r in rows:
                f.write("\t".join(map(str, (commit, prop, r["rc"], r["chk"], r["sig"], f"{r['wall']}s", r["corpus"]))) + "\n")


if __name__ == "__main__":
    {"seeds": seeds, "fixes": fixes}[sys.argv[1]](sys.argv[2:])
