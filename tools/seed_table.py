#!/venv/bin/python
"""Prints the markdown table of DESIGN.md section 8 from seeded/*/meta.json and FIXES.tsv."""
import json
import os
import re

ROOT = "/verif/seeded"
print("| change | file(s) | what it does (first words of the author's summary) | detected by | signature | seed | s |")
print("|---|---|---|---|---|---|---|")
for name in sorted(x for x in os.listdir(ROOT) if re.fullmatch(r"C\d\d-\d+", x)):
    m = json.load(open(f"{ROOT}/{name}/meta.json"))
    d = m.get("detected_by") or {}
    files = ", ".join(os.path.basename(f) for f in m.get("files_changed", []))
    s = re.sub(r"\s+", " ", m.get("summary", "")).replace("|", "/")
    s = s[:120] + ("..." if len(s) > 120 else "")
    chk = f"{d.get('check')}/{d.get('sub_check')}" if d.get("check") else "**missed**"
    print(f"| {name} | {files} | {s} | {chk} | {d.get('signature') or ''} | {d.get('seed', '')} | {d.get('wall_s', '')} |")
