#!/venv/bin/python
"""Which lines of the files a property is anchored in do the generated cases of its quick check
reach?  A measurement aid for the generators (not a registered check, decides nothing).

usage: coverage_report.py Cxx [Cyy ...]      -> /verif/coverage/Cxx.txt (+ a summary line each)
"""
import json
import os
import shutil
import subprocess
import sys
import tempfile

VERIF = "/verif"
REPO = os.environ.get("VERIF_REPO", "/repo")
props = {json.loads(l)["id"]: json.loads(l) for l in open(f"{VERIF}/properties.jsonl")}
os.makedirs(f"{VERIF}/coverage", exist_ok=True)
for pid in sys.argv[1:]:
    files = props[pid]["anchors"]["files"] if "anchors" in props[pid] else []
    d = tempfile.mkdtemp(prefix=f"cov-{pid}-", dir="/dev/shm")
    ev = f"{VERIF}/evidence/{pid}.json"
    bak = open(ev).read() if os.path.exists(ev) else None
    try:
        env = dict(os.environ, VERIF_COVERAGE=d, COVERAGE_CORE="sysmon", VERIF_CASE_TIMEOUT="3000")
        r = subprocess.run(["/venv/bin/python", f"{VERIF}/pbt/run.py", pid, "--tier", "quick"], env=env, capture_output=True, text=True)
        import coverage

        cov = coverage.Coverage(data_file=os.path.join(d, ".coverage"))
        cov.combine([os.path.join(d, f) for f in os.listdir(d)])
        out = [f"# {pid}: line coverage of its anchor files by one quick run ({r.stdout.strip().splitlines()[-1] if r.stdout.strip() else r.returncode})"]
        tot_s = tot_m = 0
        for f in files:
            path = os.path.join(REPO, f)
            try:
                _, stmts, _, missing, fmt = cov.analysis2(path)
            except Exception as e:  # noqa: BLE001
                out.append(f"{f}: not measured ({type(e).__name__})")
                continue
            tot_s += len(stmts)
            tot_m += len(missing)
            out.append(f"{f}: {len(stmts) - len(missing)}/{len(stmts)} statements; not reached: {fmt}")
        out.insert(1, f"# total {tot_s - tot_m}/{tot_s} = {100 * (tot_s - tot_m) / max(1, tot_s):.1f}%")
        open(f"{VERIF}/coverage/{pid}.txt", "w").write("\n".join(out) + "\n")
        print(out[0], out[1], sep="\n")
    finally:
        if bak is not None:
            open(ev, "w").write(bak)
        shutil.rmtree(d, ignore_errors=True)
