#!/bin/bash
# usage: thorough_chain.sh <scale> <seed> [props...]  -- runs the thorough tier of each property
# (case counts scaled by <scale>), keeps its evidence under notes/thorough_runs/ and restores the
# quick-tier evidence file.  One summary line per property on stdout.
scale=$1; seed=$2; shift 2
props=${@:-C11 C18 C15 C17 C16 C12 C14 C13 C06 C20 C10 C02 C01 C08 C09 C07 C05 C19 C04 C03}
for p in $props; do
  cp /verif/evidence/$p.json /dev/shm/ev-$p.bak 2>/dev/null
  t0=$(date +%s)
  VERIF_SCALE=$scale VERIF_SEED=$seed /venv/bin/python /verif/pbt/run.py $p --tier thorough > /dev/shm/thorough-$p.log 2>&1; rc=$?
  cp /verif/evidence/$p.json /verif/notes/thorough_runs/$p-scale$scale-seed$seed.json 2>/dev/null
  cp /dev/shm/ev-$p.bak /verif/evidence/$p.json 2>/dev/null
  echo "$p rc=$rc $(( $(date +%s) - t0 ))s $(grep -E "^$p tier" /dev/shm/thorough-$p.log | tail -1)"
  grep -E "^VIOLATION|^  check=|HARNESS-ERROR" /dev/shm/thorough-$p.log | head -6
done
