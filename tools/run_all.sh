#!/bin/bash
# usage: run_all.sh [tier] [seed]   -- runs every registered check once, prints one line each
tier=${1:-quick}; seed=${2:-1}
for p in C01 C02 C03 C04 C05 C06 C07 C08 C09 C10 C11 C12 C13 C14 C15 C16 C17 C18 C19 C20; do
  VERIF_SEED=$seed /venv/bin/python /verif/pbt/run.py $p --tier $tier > /tmp/runall-$p.log 2>&1; rc=$?
  echo "$p rc=$rc $(grep -E "^$p tier" /tmp/runall-$p.log | tail -1)"
done
