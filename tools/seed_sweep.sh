#!/bin/bash
# Runs every stored seed against the quick check of its property; writes /verif/seeded/RESULTS.tsv
out=/verif/seeded/RESULTS.tsv; : > $out
for d in /verif/seeded/C*-*/; do
  s=$(basename $d); prop=${s%-*}
  log=/tmp/sweep-$s.log
  /verif/tools/try_patch.sh $d/patch.diff $prop quick > $log 2>&1; rc=$?
  sig=$(grep -m1 -o "signature=[^ ]*" $log | cut -d= -f2)
  chk=$(grep -m1 -o "check=[^ ]*" $log | cut -d= -f2)
  wall=$(grep -o "wall=[0-9.]*s" $log | tail -1)
  printf "%s\t%s\t%s\t%s\t%s\n" "$s" "$rc" "$chk" "$sig" "$wall" >> $out
done
find /verif/replays -name '*.json' -delete
