#!/venv/bin/python
"""confirm_seed.py <PROP> <k> <pytest targets...>

Confirms a sub-agent's seeded change in a scratch worktree of /repo HEAD:
  demo exits 0 without the change, non-zero with it; the given tests pass with it.
Then stores it as /verif/seeded/<PROP>-<k>/ (patch.diff, demo.py, meta.json).
"""
import json, os, shutil, subprocess, sys

prop, k, tests = sys.argv[1], sys.argv[2], sys.argv[3:]
# round-2 seeds: SEED_ROOT=/tmp/seed2, stored as <PROP>-<k+2>
root = os.environ.get("SEED_ROOT", "/tmp/seed")
src = f"{root}/out/{prop}"
store_k = str(int(k) + int(os.environ.get("SEED_OFFSET", "0")))
d = f"/dev/shm/confirm-{prop}-{k}"
env = dict(os.environ, PYTHONPATH=d, PYTHONHASHSEED="0")


def sh(cmd, **kw):
    return subprocess.run(cmd, shell=True, cwd=d, env=env, capture_output=True, text=True, **kw)


subprocess.run(f"git -C /repo worktree add --detach -q {d} HEAD", shell=True, check=True)
try:
    shutil.copy(f"{src}/demo{k}.py", f"{d}/_demo.py")
    r0 = sh("/venv/bin/python _demo.py", timeout=1800)
    ap = sh(f"git apply {src}/patch{k}.diff || git apply -3 {src}/patch{k}.diff")
    if ap.returncode != 0:
        print("PATCH DOES NOT APPLY", ap.stderr)
        sys.exit(3)
    # regenerate the patch against the current HEAD (fix commits may have shifted lines)
    diff = sh("git diff HEAD").stdout
    r1 = sh("/venv/bin/python _demo.py", timeout=1800)
    t = None
    if tests:
        cmd = "/venv/bin/python -m pytest -q --color=no -p no:cacheprovider -n 8 " + " ".join(tests)
        t = sh(cmd, timeout=3600)
        tail = t.stdout.strip().splitlines()[-1] if t.stdout.strip() else t.stderr[-300:]
    print("demo without change: exit", r0.returncode)
    print("demo with change   : exit", r1.returncode, "|", (r1.stderr or r1.stdout).strip().splitlines()[-1:] )
    if t is not None:
        print("tests with change  : rc", t.returncode, "|", tail)
    ok = r0.returncode == 0 and r1.returncode != 0 and (t is None or t.returncode == 0)
    print("CONFIRMED" if ok else "NOT CONFIRMED")
    if ok:
        out = f"/verif/seeded/{prop}-{store_k}"
        os.makedirs(out, exist_ok=True)
        open(f"{out}/patch.diff", "w").write(diff)
        shutil.copy(f"{src}/demo{k}.py", f"{out}/demo.py")
        m = json.load(open(f"{src}/meta{k}.json"))
        meta = {
            "property": prop,
            "summary": m.get("summary"),
            "needs_to_manifest": m.get("needs_to_manifest"),
            "files_changed": m.get("files_changed"),
            "author": "independent sub-agent given only the property text and a scratch worktree",
            "confirmed_by_me": {
                "base_commit": subprocess.run("git -C /repo rev-parse --short HEAD", shell=True, capture_output=True, text=True).stdout.strip(),
                "demo_without_change": f"exit {r0.returncode}",
                "demo_with_change": f"exit {r1.returncode}: " + " ".join((r1.stderr or r1.stdout).strip().splitlines()[-1:])[:400],
                "tests_with_change": (cmd + " -> " + tail) if t is not None else None,
            },
            "detected_by": None,
        }
        json.dump(meta, open(f"{out}/meta.json", "w"), indent=1)
finally:
    subprocess.run(f"git -C /repo worktree remove --force {d}", shell=True)
