#!/venv/bin/python
"""Compare junit xml files of a run of optuna's own suite with the pinned baseline.

usage: baseline_compare.py a.junit.xml [b.junit.xml ...]
Prints the baseline tests (stable_pass of /root/.vp/BASELINE.json) that did not pass in the
union of the given files; exit 0 when there are none.
"""
import json
import sys
import xml.etree.ElementTree as ET

base = set(json.load(open("/root/.vp/BASELINE.json"))["stable_pass"])
passed, bad = set(), {}
for f in sys.argv[1:]:
    for tc in ET.parse(f).getroot().iter("testcase"):
        tid = f"{tc.get('classname')}::{tc.get('name')}"
        kids = [k.tag for k in tc if k.tag in ("failure", "error", "skipped")]
        if kids:
            bad[tid] = kids[0]
        else:
            passed.add(tid)
missing = sorted(t for t in base if t not in passed)
print(f"baseline {len(base)}  passed-in-run {len(passed)}  baseline-and-passed {len(base & passed)}  not-passed {len(missing)}")
for t in missing[:60]:
    print("  ", t, bad.get(t, "not-run"))
sys.exit(1 if missing else 0)
