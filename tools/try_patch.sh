#!/bin/bash
# usage: try_patch.sh <patch> <prop> [tier] [extra env assignments...]
# Applies <patch> to a scratch worktree of /repo (HEAD) under /dev/shm, runs the property's
# check against it (VERIF_REPO), removes the worktree.  Evidence of that run goes to a temp dir.
set -u
patch=$(readlink -f "$1"); prop=$2; tier=${3:-quick}
d=/dev/shm/mut-$$-$prop
git -C /repo worktree add --detach -q "$d" HEAD || exit 3
if ! git -C "$d" apply "$patch" 2>/dev/null; then
  if ! git -C "$d" apply -3 "$patch"; then echo "PATCH DOES NOT APPLY"; git -C /repo worktree remove --force "$d"; exit 3; fi
fi
cp /verif/evidence/$prop.json /tmp/evidence-$prop.bak 2>/dev/null
VERIF_REPO=$d /venv/bin/python /verif/pbt/run.py $prop --tier $tier
rc=$?
cp /tmp/evidence-$prop.bak /verif/evidence/$prop.json 2>/dev/null
git -C /repo worktree remove --force "$d"
echo "exit=$rc"
exit $rc
