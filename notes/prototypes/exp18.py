import warnings, os, tempfile, shutil, json
warnings.simplefilter("ignore")
import optuna
optuna.logging.set_verbosity(optuna.logging.ERROR)
import optuna.storages.journal._file as jf
from optuna.storages.journal import JournalFileBackend, JournalFileOpenLock, JournalFileSymlinkLock
from optuna.storages import JournalStorage
from optuna.study import StudyDirection
from faultfs import *
d = tempfile.mkdtemp(dir="/dev/shm")
ctx = Ctx(); install(jf, ctx)
def scenario(crash_at, cut, lockcls):
    p = os.path.join(d, "x.log")
    for f in os.listdir(d): os.unlink(os.path.join(d, f))
    ctx.__init__(); 
    def mk(name):
        ctx.worker = name
        return JournalStorage(JournalFileBackend(p, lock_obj=lockcls(p, grace_period=30)))
    s1 = mk("S1"); ctx.worker = "S1"
    sid = s1.create_new_study([StudyDirection.MINIMIZE], "s"); s1.set_study_user_attr(sid, "k0", 0)
    v = mk("V"); ctx.worker = "V"; v.get_all_studies()
    base = ctx.calls; ctx.crash_at = None if crash_at is None else base + crash_at; ctx.cut = cut
    acked = []
    try:
        v.set_study_user_attr(sid, "v1", 1); acked.append("v1")
        v.set_study_user_attr(sid, "v2", 2); acked.append("v2")
    except WorkerDied: pass
    ncalls = ctx.calls - base
    ctx.crash_at = None
    # survivors
    problems = []
    try:
        ctx.worker = "S1"; seen1 = dict(s1.get_study_user_attrs(sid))
        ctx.worker = "S2"; s2 = mk("S2"); ctx.worker = "S2"; seen2 = dict(s2.get_study_user_attrs(sid))
        for seen in (seen1, seen2):
            for a in acked:
                if a not in seen: problems.append("acked %s lost" % a)
        ctx.worker = "S1"; s1.set_study_user_attr(sid, "s1a", 1)
        ctx.worker = "S2"; s2.set_study_user_attr(sid, "s2a", 1)
        ctx.worker = "S1"; s1.set_study_user_attr(sid, "s1b", 1)
        ctx.worker = "S3"; s3 = mk("S3"); ctx.worker = "S3"; fin = s3.get_study_user_attrs(sid)
        for k in ["k0", "s1a", "s2a", "s1b"] + acked:
            if k not in fin: problems.append("final missing " + k)
    except WorkerDied: problems.append("survivor died?")
    except Exception as e: problems.append("survivor exception %s" % type(e).__name__)
    return ncalls, problems, ctx.now
for lockcls in (JournalFileSymlinkLock, JournalFileOpenLock):
    n, pr, _ = scenario(None, None, lockcls); print(lockcls.__name__, "victim syscalls:", n, pr)
    tr = [t for w, t in ctx.trace if w == "V"]; print("  trace:", tr[-n:] if n < 40 else tr[-40:])
    total = 0; badpts = []
    for k in range(1, n + 1):
        _, pr, now = scenario(k, None, lockcls); total += 1
        if pr: badpts.append((k, None, pr[:2], round(now, 1)))
    # torn writes: find write call indices
    scenario(None, None, lockcls)
    for k in range(1, n + 1):
        for cut in (1, 10, 40):
            _, pr, now = scenario(k, cut, lockcls); total += 1
            if pr: badpts.append((k, cut, pr[:2], round(now, 1)))
    print("  crash points:", total, "violating:", len(badpts)); print("  ", badpts[:6])
shutil.rmtree(d, ignore_errors=True)
