import warnings, math, itertools
warnings.simplefilter("ignore")
import numpy as np
from fractions import Fraction
from optuna._hypervolume import compute_hypervolume
from optuna._hypervolume.hssp import _solve_hssp
from optuna.study._multi_objective import _fast_non_domination_rank
from hypothesis import given, settings, strategies as st, HealthCheck, seed

def hv_exact(pts, ref):
    # coordinate compression, exact on Fractions; returns Fraction or inf
    pts = [p for p in pts]
    d = len(ref)
    # infinite iff some point has -inf coord and all other edges > 0
    for p in pts:
        if any(x == -math.inf for x in p):
            if all((r - x) > 0 for x, r in zip(p, ref)): return math.inf
    pts = [p for p in pts if not any(x == -math.inf for x in p)]  # remaining -inf points have zero-measure
    if not pts: return Fraction(0)
    grids = []
    for k in range(d):
        g = sorted(set([Fraction(p[k]) for p in pts] + [Fraction(ref[k])]))
        grids.append(g)
    total = Fraction(0)
    for cell in itertools.product(*[range(len(g) - 1) for g in grids]):
        lo = [grids[k][cell[k]] for k in range(d)]
        if any(all(Fraction(p[k]) <= lo[k] for k in range(d)) for p in pts):
            vol = Fraction(1)
            for k in range(d): vol *= grids[k][cell[k] + 1] - grids[k][cell[k]]
            total += vol
    return total

bad = []
cnt = {"n": 0, "inf": 0}
coord = st.one_of(st.integers(-3, 3), st.just(-math.inf))
@settings(max_examples=3000, deadline=None, database=None, suppress_health_check=list(HealthCheck))
@seed(3)
@given(st.integers(1, 4).flatmap(lambda d: st.tuples(st.lists(st.lists(coord, min_size=d, max_size=d), min_size=1, max_size=6), st.lists(st.integers(0, 2), min_size=d, max_size=d))))
def t(args):
    pts, extra = args
    d = len(extra)
    ref = [max([p[k] for p in pts if p[k] != -math.inf] + [-3]) + extra[k] for k in range(d)]
    got = compute_hypervolume(np.array(pts, dtype=float), np.array(ref, dtype=float))
    exp = hv_exact(pts, ref)
    cnt["n"] += 1; cnt["inf"] += exp == math.inf
    if (exp == math.inf) != (got == math.inf) or (exp != math.inf and abs(float(exp) - got) > 1e-9):
        if len(bad) < 6: bad.append((pts, ref, got, float(exp)))
t()
print(cnt, "mismatches:", len(bad))
for b in bad: print(b)
