import warnings, math, os, tempfile, time, shutil, sys, collections, socket
warnings.simplefilter("ignore")
import optuna, grpc
optuna.logging.set_verbosity(optuna.logging.ERROR)
from optuna.storages import *
from optuna.storages._grpc.server import make_server
from optuna.trial import TrialState, create_trial
from optuna.study import StudyDirection
from optuna.distributions import FloatDistribution
from hypothesis import given, settings, strategies as st, HealthCheck, seed, Phase
d = tempfile.mkdtemp(dir="/dev/shm"); cnt = [0]
tmpl = os.path.join(d, "tmpl.db"); RDBStorage("sqlite:///" + tmpl).engine.dispose()
def free_port():
    s = socket.socket(); s.bind(("localhost", 0)); p = s.getsockname()[1]; s.close(); return p
class Switch(BaseStorage):
    def __init__(self): self.t = None
for name in [n for n in dir(BaseStorage) if not n.startswith("__") and callable(getattr(BaseStorage, n))]:
    def mk(name):
        def f(self, *a, **k): return getattr(self.t, name)(*a, **k)
        return f
    setattr(Switch, name, mk(name))
Switch.__abstractmethods__ = frozenset()
sw = Switch(); port = free_port(); srv = make_server(sw, "localhost", port); srv.start()
bad = collections.defaultdict(list); n = collections.Counter()
ALLOW_DELETE = len(sys.argv) > 2
@settings(max_examples=int(sys.argv[1]), deadline=None, database=None, suppress_health_check=list(HealthCheck), phases=[Phase.generate])
@seed(9)
@given(st.data())
def run(data):
    cnt[0] += 1; p = os.path.join(d, "s%d.db" % cnt[0]); shutil.copy(tmpl, p); url = "sqlite:///" + p
    kw = dict(skip_compatibility_check=True, skip_table_creation=True)
    raw = RDBStorage(url, **kw)
    sw.t = _CachedStorage(RDBStorage(url, **kw))
    clients = {"A": _CachedStorage(RDBStorage(url, **kw)), "B": _CachedStorage(RDBStorage(url, **kw)), "R": RDBStorage(url, **kw),
               "P": GrpcStorageProxy(host="localhost", port=port), "Q": GrpcStorageProxy(host="localhost", port=port)}
    for c in ("P", "Q"):
        for _ in range(100):
            try: clients[c].get_all_studies(); break
            except grpc.RpcError: time.sleep(0.02)
    studies = []; trials = []  # (id, study)
    names = iter(["s%d" % i for i in range(50)])
    for step in range(data.draw(st.integers(3, 30))):
        who = data.draw(st.sampled_from(sorted(clients))); c = clients[who]
        ops = ["new_study"] + (["new_trial", "new_trial", "tmpl"] if studies else []) + (["finish", "finish", "attr", "param", "claim"] if trials else []) + (["delete"] if studies and ALLOW_DELETE else [])
        op = data.draw(st.sampled_from(ops))
        try:
            if op == "new_study": studies.append(c.create_new_study([StudyDirection.MINIMIZE], next(names)))
            elif op == "delete":
                sid = data.draw(st.sampled_from(studies)); c.delete_study(sid); studies.remove(sid); trials[:] = [t for t in trials if t[1] != sid]
            elif op == "new_trial":
                sid = data.draw(st.sampled_from(studies)); trials.append((c.create_new_trial(sid), sid))
            elif op == "tmpl":
                sid = data.draw(st.sampled_from(studies)); stt = data.draw(st.sampled_from([TrialState.COMPLETE, TrialState.FAIL, TrialState.WAITING, TrialState.RUNNING, TrialState.PRUNED]))
                trials.append((c.create_new_trial(sid, create_trial(state=stt, value=1.0 if stt == TrialState.COMPLETE else None)), sid))
            else:
                tid, sid = data.draw(st.sampled_from(trials))
                if op == "finish": c.set_trial_state_values(tid, data.draw(st.sampled_from([TrialState.COMPLETE, TrialState.FAIL, TrialState.PRUNED])), [0.5])
                elif op == "claim": c.set_trial_state_values(tid, TrialState.RUNNING)
                elif op == "attr": c.set_trial_user_attr(tid, "k", step)
                elif op == "param": c.set_trial_param(tid, "x%d" % step, 0.5, FloatDistribution(0, 1))
        except (optuna.exceptions.UpdateFinishedTrialError, KeyError): pass
        # reads by a random client vs raw
        rname = data.draw(st.sampled_from(sorted(clients))); r = clients[rname]
        for sid in studies:
            for states in (None, (TrialState.RUNNING,), (TrialState.COMPLETE, TrialState.WAITING)):
                n["reads"] += 1
                try: got = r.get_all_trials(sid, deepcopy=False, states=states)
                except Exception as e: bad[rname, "exc", type(e).__name__].append((op, who)); continue
                exp = raw.get_all_trials(sid, states=states)
                if got != exp: bad[rname, "stale", op, "writer=" + who].append(([(t._trial_id, t.state.name) for t in got], [(t._trial_id, t.state.name) for t in exp]))
            try:
                if r.get_study_name_from_id(sid) != raw.get_study_name_from_id(sid): bad[rname, "name"].append(1)
            except KeyError: bad[rname, "name KeyError"].append(1)
        for tid, sid in trials:
            try:
                if r.get_trial(tid) != raw.get_trial(tid): bad[rname, "get_trial stale"].append((op, who))
            except KeyError: bad[rname, "get_trial KeyError"].append((op, who))
    for c in list(clients.values()) + [sw.t, raw]:
        b = c._backend if isinstance(c, _CachedStorage) else c
        if isinstance(b, RDBStorage): b.engine.dispose()
t0 = time.time()
try: run()
finally:
    print("C08 time %.1f" % (time.time() - t0), dict(n))
    for k, v in sorted(bad.items(), key=lambda x: -len(x[1])): print(len(v), k, str(v[0])[:300])
    srv.stop(None); shutil.rmtree(d, ignore_errors=True)
