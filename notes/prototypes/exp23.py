import warnings, os, tempfile, shutil, time, sys, collections, json
warnings.simplefilter("ignore")
import optuna
import optuna.storages.journal._file as jf
from optuna.storages.journal import JournalFileBackend, JournalFileOpenLock, JournalFileSymlinkLock
from sched2 import *
import faultfs
d = tempfile.mkdtemp(dir="/dev/shm"); MODE = sys.argv[1]
def scenario(preempt, lockcls, chunks):
    for f in os.listdir(d): os.unlink(os.path.join(d, f))
    sched = Scheduler([jf.__file__], preempt)
    ctx = faultfs.Ctx(); ctx.hook = lambda tag: sched.yield_point(); faultfs.install(jf, ctx, chunks)
    class VT:
        def monotonic(self): return sched.now
        def sleep(self, s): sched.sleep(s)
    jf.time = VT()
    p = os.path.join(d, "x.log")
    bs = [JournalFileBackend(p, lock_obj=lockcls(p)) for _ in range(3)]
    bs[0].append_logs([{"w": "init", "i": 0}]); bs[2].read_logs(0)   # reader has a cached offset
    log = {"order": [], "reads": []}
    orig_append = [b.append_logs for b in bs]
    def writer(b, name, n):
        def f():
            for i in range(n):
                recs = [{"w": name, "i": i, "pad": "x" * 30}]
                b.append_logs(recs)
            return b.read_logs(0)
        return f
    def reader(b):
        def f():
            out = []; seen = 1
            for rep in range(3):
                k = seen if MODE == "incremental" else (1, 0, 2)[rep]
                started = sched.steps; r = b.read_logs(k); out.append((k, r, started, sched.steps)); seen = max(seen, k + len(r))
            return out
        return f
    res = sched.run({"A": writer(bs[0], "A", 2), "B": writer(bs[1], "B", 1), "R": reader(bs[2])})
    final = JournalFileBackend(p).read_logs(0)
    return res, final, sched, bs
def check(res, final, bs):
    probs = []
    if any(r[0] != "ok" for r in res.values()): return ["exception " + str({k: repr(v[1])[:80] for k, v in res.items() if v[0] != "ok"})]
    keys = [(r["w"], r["i"]) for r in final]
    if sorted(keys) != sorted([("init", 0), ("A", 0), ("A", 1), ("B", 0)]): probs.append(("final content", keys))
    if keys.index(("A", 0)) > keys.index(("A", 1)): probs.append("A order")
    for k, r, s0, s1 in res["R"][1]:
        if r != final[k:k + len(r)]: probs.append(("read not a contiguous run of the log", k, r, final))
    for name in ("A", "B"):
        r = res[name][1]
        if r != final[:len(r)]: probs.append(("writer read not a prefix", name))
    # offset caches consistent
    for b in bs:
        for k in range(len(final) + 1):
            try:
                if b.read_logs(k) != final[k:]: probs.append(("later read disagrees", k)); break
            except Exception as e: probs.append(("later read raises", k, type(e).__name__)); break
    return probs
for lockcls in (JournalFileSymlinkLock,):
    for chunks in ((1, 1, 1, 1, 500),):
        t0 = time.time(); res, final, sched, bs = scenario({}, lockcls, chunks); n = sched.steps
        jf.os = os; jf.open = open; jf.time = time
        base = check(res, final, bs); viol = []; outc = collections.Counter()
        stride = 1 if n < 400 else 2
        for k in range(0, n + 1, stride):
            for other in (0, 1):
                res, final, sc, bs = scenario({k: other}, lockcls, chunks)
                jf.os = os; jf.open = open; jf.time = time
                pr = check(res, final, bs); outc["bad" if pr else "ok"] += 1
                if pr: viol.append((k, other, pr[:1]))
        print(lockcls.__name__, "chunks", chunks, "yield points", n, "base", base, dict(outc), "%.1fs" % (time.time() - t0))
        if viol: print("   ", viol[0])
shutil.rmtree(d, ignore_errors=True)
