import warnings, os, tempfile, shutil, time, sys, collections
warnings.simplefilter("ignore")
import optuna
optuna.logging.set_verbosity(optuna.logging.ERROR)
import optuna.storages.journal._file as jf, optuna.storages.journal._storage as jst, optuna.storages._rdb.storage as rs, optuna.storages._rdb.models as rm
import optuna.storages._cached_storage as cs, optuna.study.study as ss, optuna.storages._in_memory as im
from optuna.storages.journal import JournalFileBackend, JournalFileOpenLock
from optuna.storages import JournalStorage, RDBStorage, _CachedStorage, InMemoryStorage
from optuna.exceptions import *
from sched2 import *
import faultfs
d = tempfile.mkdtemp(dir="/dev/shm")

def journal_setup(sched):
    ctx = faultfs.Ctx(); ctx.hook = lambda tag: sched.yield_point()
    faultfs.install(jf, ctx)
    class VT:
        def monotonic(self): return sched.now
        def sleep(self, s): sched.sleep(s)
    jf.time = VT()
    return ctx

def scenario(kind, preempt, nq=1):
    for f in os.listdir(d): os.unlink(os.path.join(d, f))
    sched = Scheduler([jf.__file__, jst.__file__, rs.__file__, rm.__file__, cs.__file__, im.__file__, ss.__file__], preempt)
    if kind.startswith("journal"):
        ctx = journal_setup(sched); p = os.path.join(d, "j.log")
        mk = lambda: JournalStorage(JournalFileBackend(p))
    elif kind == "sqlite":
        url = "sqlite:///" + os.path.join(d, "s.db"); RDBStorage(url).engine.dispose()
        mk = lambda: RDBStorage(url, engine_kwargs={"connect_args": {"timeout": 0}}, skip_compatibility_check=True, skip_table_creation=True)
    elif kind == "cached":
        url = "sqlite:///" + os.path.join(d, "s.db"); RDBStorage(url).engine.dispose()
        mk = lambda: _CachedStorage(RDBStorage(url, engine_kwargs={"connect_args": {"timeout": 0}}, skip_compatibility_check=True, skip_table_creation=True))
    elif kind == "inmem":
        one = InMemoryStorage(); mk = lambda: one
    s0 = mk()
    st0 = optuna.create_study(storage=s0, study_name="q", sampler=optuna.samplers.RandomSampler(seed=0))
    for i in range(nq): st0.enqueue_trial({"x": 0.25 + i}, user_attrs={"n": i})
    shared = kind in ("journal_threads", "inmem")
    sA = s0 if shared else mk(); sB = s0 if shared else mk()
    for s in {id(sA): sA, id(sB): sB}.values(): replace_locks(s, sched)
    stA = optuna.load_study(study_name="q", storage=sA, sampler=optuna.samplers.RandomSampler(seed=1))
    stB = optuna.load_study(study_name="q", storage=sB, sampler=optuna.samplers.RandomSampler(seed=2))
    def worker(st):
        def f():
            t = st.ask(); x = t.suggest_float("x", 0, 10); return (t._trial_id, t.number, x)
        return f
    res = sched.run({"A": worker(stA), "B": worker(stB)})
    fin = mk().get_all_trials(st0._study_id) if not shared else s0.get_all_trials(st0._study_id)
    for s in (s0, sA, sB):
        b = getattr(s, "_backend", s)
        if isinstance(b, RDBStorage): b.engine.dispose()
    return res, fin, sched

for kind in (sys.argv[1:] or ["inmem", "journal_threads", "journal_procs", "sqlite", "cached"]):
    t0 = time.time()
    res, fin, sched = scenario(kind, {})
    n = sched.steps; outcomes = collections.Counter(); viol = []
    for k in range(0, n + 1):
        try:
            res, fin, sc = scenario(kind, {k: 0})
        except Deadlock as e:
            outcomes["deadlock"] += 1; continue
        ids = [r[1][0] for r in res.values() if r[0] == "ok"]
        excs = [type(r[1]).__name__ for r in res.values() if r[0] == "exc"]
        outcomes[("ok" if not excs else "exc:" + ",".join(excs))] += 1
        if len(set(ids)) != len(ids): viol.append((k, res))
        # the queued trial must be claimed at most once, with x == 0.25
        for r in res.values():
            if r[0] == "ok" and r[1][1] == 0 and r[1][2] != 0.25: viol.append((k, "fixed param lost", r))
    print(kind, "yield points", n, "schedules", n + 1, dict(outcomes), "violations", len(viol), "%.1fs" % (time.time() - t0))
    if viol: print("   ", viol[0])
shutil.rmtree(d, ignore_errors=True)
