"""Quick-and-dirty C01 differential: random histories, all backends vs in-memory as reference."""
import warnings, math, os, tempfile, time, socket, random, collections, datetime, shutil, copy, sys
warnings.simplefilter("ignore")
import optuna, grpc, fakeredis
optuna.logging.set_verbosity(optuna.logging.ERROR)
from optuna.storages import *
from optuna.storages.journal import JournalFileBackend, JournalRedisBackend, JournalFileOpenLock
from optuna.storages._grpc.server import make_server
from optuna.distributions import *
from optuna.trial import TrialState, FrozenTrial, create_trial
from optuna.study import StudyDirection
from optuna.exceptions import *
from hypothesis import given, settings, strategies as st, HealthCheck, seed, Phase

d = tempfile.mkdtemp(dir="/dev/shm")
tmpl = os.path.join(d, "tmpl.db"); RDBStorage("sqlite:///" + tmpl).engine.dispose()
cnt = [0]
def sqlite():
    cnt[0] += 1; p = os.path.join(d, "s%d.db" % cnt[0]); shutil.copy(tmpl, p)
    return RDBStorage("sqlite:///" + p, skip_compatibility_check=True, skip_table_creation=True)
def jfile(lock=None):
    cnt[0] += 1; p = os.path.join(d, "j%d.log" % cnt[0])
    return JournalStorage(JournalFileBackend(p, lock_obj=JournalFileOpenLock(p) if lock else None))
def jredis():
    b = JournalRedisBackend("redis://localhost"); b._redis = fakeredis.FakeStrictRedis(); return JournalStorage(b)

class Switch(BaseStorage):
    def __init__(self): self.t = None
for name in [n for n in dir(BaseStorage) if not n.startswith("__") and callable(getattr(BaseStorage, n))]:
    def mk(name):
        def f(self, *a, **k): return getattr(self.t, name)(*a, **k)
        return f
    setattr(Switch, name, mk(name))
Switch.__abstractmethods__ = frozenset()

def free_port():
    s = socket.socket(); s.bind(("localhost", 0)); p = s.getsockname()[1]; s.close(); return p
servers = {}
def grpc_over(key, backend):
    if key not in servers:
        sw = Switch(); port = free_port(); srv = make_server(sw, "localhost", port); srv.start()
        servers[key] = (sw, port, srv)
    sw, port, srv = servers[key]; sw.t = backend
    px = GrpcStorageProxy(host="localhost", port=port)
    for _ in range(200):
        try: px.get_all_studies(); break
        except grpc.RpcError: time.sleep(0.02)
    return px

def configs():
    return {
      "inmem": InMemoryStorage(), "sqlite": sqlite(), "cached": _CachedStorage(sqlite()),
      "jfile": jfile(), "jfile_open": jfile(True), "jredis": jredis(),
      "g_inmem": grpc_over("a", InMemoryStorage()), "g_sqlite": grpc_over("b", sqlite()),
      "g_cached": grpc_over("c", _CachedStorage(sqlite())), "g_jfile": grpc_over("e", jfile()),
    }

# ---------- strategies
json_leaf = st.one_of(st.none(), st.booleans(), st.integers(-2**40, 2**40), st.floats(allow_nan=True), st.text(max_size=4, alphabet=st.characters(blacklist_categories=["Cs"])))
json_val = st.recursive(json_leaf, lambda c: st.one_of(st.lists(c, max_size=3), st.dictionaries(st.text(max_size=3, alphabet="abc"), c, max_size=3)), max_leaves=5)
key = st.sampled_from(["a", "b", "k1", "é"])
dists = st.one_of(
    st.just(FloatDistribution(0, 1)), st.just(FloatDistribution(1e-3, 10, log=True)), st.just(FloatDistribution(-1, 1, step=0.25)),
    st.just(IntDistribution(-3, 7)), st.just(IntDistribution(1, 100, log=True)), st.just(IntDistribution(0, 9, step=3)),
    st.just(CategoricalDistribution([None, True, 2, 0.5, "x"])), st.just(CategoricalDistribution(["p", "q"])))
def val_in(dist, data):
    if isinstance(dist, CategoricalDistribution): return data.draw(st.integers(0, len(dist.choices) - 1))
    if isinstance(dist, IntDistribution): k = data.draw(st.integers(0, (dist.high - dist.low) // dist.step)); return float(dist.low + k * dist.step)
    if dist.step: k = data.draw(st.integers(0, int(round((dist.high - dist.low) / dist.step)))); return dist.low + k * dist.step
    return data.draw(st.floats(dist.low, dist.high))
fval = st.one_of(st.floats(allow_nan=False), st.sampled_from([math.inf, -math.inf, 0.0, 1.0]))
ival = st.one_of(st.floats(allow_nan=True), st.sampled_from([math.inf, -math.inf, math.nan]))
pname = st.sampled_from(["x", "y", "z"])
dts = st.datetimes(min_value=datetime.datetime(1971, 1, 1), max_value=datetime.datetime(2100, 1, 1))

def norm_trial(t, tmap):
    return dict(h=tmap.get(t._trial_id, ("?", t._trial_id)), number=t.number, state=t.state, values=t.values, params=t.params, dists=t.distributions,
                ua=t.user_attrs, sa=t.system_attrs, iv=t.intermediate_values, has_start=t.datetime_start is not None, has_complete=t.datetime_complete is not None)
def eq(a, b):
    if isinstance(a, float) and isinstance(b, float): return (math.isnan(a) and math.isnan(b)) or a == b
    if isinstance(a, dict) and isinstance(b, dict): return a.keys() == b.keys() and all(eq(a[k], b[k]) for k in a)
    if isinstance(a, (list, tuple)) and isinstance(b, (list, tuple)): return len(a) == len(b) and all(eq(x, y) for x, y in zip(a, b))
    return type(a) == type(b) and a == b or (a == b and not isinstance(a, bool) and not isinstance(b, bool) and isinstance(a, (int, float)) and isinstance(b, (int, float)) and type(a) == type(b))

div = collections.Counter(); examples = {}
def record(kind, detail):
    div[kind] += 1
    examples.setdefault(kind, detail)

@settings(max_examples=int(sys.argv[1]) if len(sys.argv) > 1 else 60, deadline=None, database=None, suppress_health_check=list(HealthCheck), phases=[Phase.generate])
@seed(11)
@given(st.data())
def run(data):
    cfg = configs()
    S = {n: [] for n in cfg}      # study handle -> id per backend
    T = {n: [] for n in cfg}      # trial handle -> id
    meta = {"studies": [], "trials": []}   # studies: dict(ndir, alive) ; trials: dict(study, state)
    def call(opname, f):
        out = {}
        for n, s in cfg.items():
            if skip.get(n): out[n] = None; continue
            try: out[n] = ("ok", f(n, s))
            except (KeyError, DuplicatedStudyError, UpdateFinishedTrialError, ValueError, RuntimeError) as e:
                out[n] = ("exc", type(e).__name__)
            except Exception as e:
                out[n] = ("EXC", type(e).__name__ + ":" + str(e)[:80])
        ref = out["inmem"]
        for n, r in out.items():
            if r is None: out[n] = ref; continue
            if not (r[0] == ref[0] and eq(r[1], ref[1])):
                record((opname, n, "ret"), (ref, r))
        return out
    nsteps = data.draw(st.integers(3, 25))
    skip = {}
    def set_skip(kind, h):
        skip.clear()
        for n in cfg:
            ids = S[n] if kind == "s" else T[n]
            metas = meta["studies"] if kind == "s" else meta["trials"]
            dead = (not metas[h]["alive"]) if kind == "s" else metas[h].get("dead")
            if dead and any(ids[j] == ids[h] and j != h and ((metas[j]["alive"]) if kind == "s" else not metas[j].get("dead")) for j in range(len(ids))):
                skip[n] = True
    for step in range(nsteps):
        skip.clear()
        ops = ["create_study"]
        live_s = [i for i, m in enumerate(meta["studies"]) if m["alive"]]
        if meta["studies"]: ops += ["delete_study", "study_attr", "create_trial", "create_trial_tmpl"]
        if meta["trials"]: ops += ["param", "state", "iv", "tattr", "tattr"]
        op = data.draw(st.sampled_from(ops))
        if op == "create_study":
            nm = data.draw(st.sampled_from(["s0", "s1", "s2", None])); nd = data.draw(st.integers(1, 3))
            dirs = [data.draw(st.sampled_from([StudyDirection.MINIMIZE, StudyDirection.MAXIMIZE])) for _ in range(nd)]
            out = call(op, lambda n, s: ("sid", len(S[n])) if S[n].append(s.create_new_study(dirs, nm)) is None else None)
            ok = out["inmem"][0] == "ok"
            for n in cfg:
                if out[n][0] != "ok" and ok: S[n].append(-12345)
                if out[n][0] == "ok" and not ok: S[n].pop()
            if ok: meta["studies"].append(dict(ndir=nd, alive=True))
        elif op == "delete_study":
            h = data.draw(st.integers(0, len(meta["studies"]) - 1)); set_skip("s", h)
            call(op, lambda n, s: s.delete_study(S[n][h]))
            if meta["studies"][h]["alive"]:
                meta["studies"][h]["alive"] = False
                for tm in meta["trials"]:
                    if tm["study"] == h: tm["dead"] = True
        elif op == "study_attr":
            h = data.draw(st.integers(0, len(meta["studies"]) - 1)); k = data.draw(key); v = data.draw(json_val); u = data.draw(st.booleans()); set_skip("s", h)
            call(op, lambda n, s: (s.set_study_user_attr if u else s.set_study_system_attr)(S[n][h], k, v))
        elif op in ("create_trial", "create_trial_tmpl"):
            h = data.draw(st.integers(0, len(meta["studies"]) - 1)); tmpl_t = None; state = TrialState.RUNNING; set_skip("s", h)
            if op == "create_trial_tmpl":
                state = data.draw(st.sampled_from(list(TrialState))); nd = meta["studies"][h]["ndir"]
                vals = None
                if state == TrialState.COMPLETE or (state != TrialState.FAIL and data.draw(st.booleans())): vals = [data.draw(fval) for _ in range(nd)]
                ds = {}
                for nm in data.draw(st.lists(pname, unique=True, max_size=2)):
                    prev = meta["studies"][h].setdefault("dist", {})
                    ds[nm] = prev.get(nm) or data.draw(dists); prev.setdefault(nm, ds[nm])
                ps = {nm: dd.to_external_repr(val_in(dd, data)) for nm, dd in ds.items()}
                start = None if (state == TrialState.WAITING and data.draw(st.booleans())) else data.draw(dts)
                tmpl_t = FrozenTrial(number=-1, trial_id=-1, state=state, value=None, values=vals, datetime_start=start,
                    datetime_complete=data.draw(dts) if state.is_finished() else None, params=ps, distributions=ds,
                    user_attrs=data.draw(st.dictionaries(key, json_val, max_size=2)), system_attrs=data.draw(st.dictionaries(key, json_val, max_size=2)),
                    intermediate_values=data.draw(st.dictionaries(st.integers(0, 5), ival, max_size=3)))
                tmpl_t._validate()
            out = call(op, lambda n, s: ("tid", len(T[n])) if T[n].append(s.create_new_trial(S[n][h], copy.deepcopy(tmpl_t))) is None else None)
            ok = out["inmem"][0] == "ok"
            for n in cfg:
                if out[n][0] != "ok" and ok: T[n].append(-12345)
                if out[n][0] == "ok" and not ok: T[n].pop()
            if ok: meta["trials"].append(dict(study=h, state=state, dead=False))
        else:
            h = data.draw(st.integers(0, len(meta["trials"]) - 1)); tm = meta["trials"][h]; set_skip("t", h)
            if tm["state"] == TrialState.WAITING and op != "state": op = "state"
            if op == "param":
                nm = data.draw(pname); prev = meta["studies"][tm["study"]].setdefault("dist", {}); dd = data.draw(dists)
                if nm in prev and data.draw(st.integers(0, 3)) > 0: dd = prev[nm]
                v = val_in(dd, data)
                out = call(op, lambda n, s: s.set_trial_param(T[n][h], nm, v, dd))
                if out["inmem"][0] == "ok": prev.setdefault(nm, dd)
            elif op == "iv":
                stp = data.draw(st.integers(0, 5)); v = data.draw(ival)
                call(op, lambda n, s: s.set_trial_intermediate_value(T[n][h], stp, v))
            elif op == "tattr":
                k = data.draw(key); v = data.draw(json_val); u = data.draw(st.booleans())
                call(op, lambda n, s: (s.set_trial_user_attr if u else s.set_trial_system_attr)(T[n][h], k, v))
            elif op == "state":
                cur = tm["state"]
                new = data.draw(st.sampled_from([TrialState.RUNNING, TrialState.COMPLETE, TrialState.PRUNED, TrialState.FAIL]))
                nd = meta["studies"][tm["study"]]["ndir"]; vals = None
                if new == TrialState.COMPLETE or (new == TrialState.PRUNED and data.draw(st.booleans())): vals = [data.draw(fval) for _ in range(nd)]
                out = call(op, lambda n, s: s.set_trial_state_values(T[n][h], new, vals))
                if out["inmem"] == ("ok", True): tm["state"] = new
        # ---- compare readable state
        def dump(n, s):
            tmap = {tid: i for i, tid in enumerate(T[n]) if not meta["trials"][i].get("dead")}; smap = {sid: i for i, sid in enumerate(S[n]) if meta["studies"][i]["alive"]}
            res = {"studies": sorted([(smap.get(fs._study_id), fs.study_name if not fs.study_name.startswith("no-name-") else "auto", fs.directions, fs.user_attrs, fs.system_attrs) for fs in s.get_all_studies()], key=lambda x: x[0])}
            for i, sid in enumerate(S[n]):
                if not meta["studies"][i]["alive"]:
                    if any(S[n][j] == sid and meta["studies"][j]["alive"] for j in range(len(S[n]))): continue
                    for f in (s.get_all_trials, s.get_study_user_attrs, s.get_study_name_from_id, s.get_study_directions):
                        try: f(sid); res[("deadstudy", i, f.__name__)] = "NOERR"
                        except KeyError: pass
                    continue
                res[("trials", i)] = [norm_trial(t, tmap) for t in s.get_all_trials(sid)]
                res[("trials_nc", i)] = [norm_trial(t, tmap) for t in s.get_all_trials(sid, deepcopy=False, states=(TrialState.COMPLETE, TrialState.WAITING))]
                res[("n", i)] = s.get_n_trials(sid), s.get_n_trials(sid, TrialState.RUNNING)
                res[("attrs", i)] = (s.get_study_user_attrs(sid), s.get_study_system_attrs(sid), s.get_study_name_from_id(sid)[:7], s.get_study_directions(sid))
                if meta["studies"][i]["ndir"] == 1:
                    try: res[("best", i)] = s.get_best_trial(sid).value
                    except ValueError: res[("best", i)] = "ValueError"
            for i, tid in enumerate(T[n]):
                tm = meta["trials"][i]
                if tm.get("dead") and any(T[n][j] == tid and not meta["trials"][j].get("dead") for j in range(len(T[n]))): res[("trial", i)] = "KeyError"; continue
                try:
                    t = s.get_trial(tid); r = norm_trial(t, tmap)
                    r["num"] = s.get_trial_number_from_id(tid); r["p"] = s.get_trial_params(tid); r["ua2"] = s.get_trial_user_attrs(tid); r["sa2"] = s.get_trial_system_attrs(tid)
                    r["back"] = tmap.get(s.get_trial_id_from_study_id_trial_number(S[n][tm["study"]], t.number))
                    for nm in t.params: r[("pi", nm)] = float(s.get_trial_param(tid, nm))
                    res[("trial", i)] = r
                except KeyError:
                    res[("trial", i)] = "KeyError"
            return res
        dumps = {}
        if step % 4 != 3 and step != nsteps - 1: continue
        for n, s in cfg.items():
            try: dumps[n] = dump(n, s)
            except Exception as e: record(("dump", n, type(e).__name__), str(e)[:200]); dumps[n] = None
        ref = dumps["inmem"]
        for n, dd in dumps.items():
            if dd is None or ref is None: continue
            for k in set(ref) | set(dd):
                if k not in ref or k not in dd or not eq(ref[k], dd[k]):
                    record(("state", n, k[0] if isinstance(k, tuple) else k), (op, ref.get(k), dd.get(k)))
    for n, s in cfg.items():
        if isinstance(s, RDBStorage): s.engine.dispose()
        if isinstance(s, _CachedStorage): s._backend.engine.dispose()
t0 = time.time()
try: run()
finally:
    print("time %.1f" % (time.time() - t0))
    for k, v in sorted(div.items(), key=lambda x: -x[1]): print(v, k)
    print("----- first examples")
    seen = set()
    for k, v in examples.items():
        kk = (k[0], k[1].replace("g_", "").replace("cached", "sqlite").replace("_open", "").replace("jredis", "jfile"), k[2])
        if kk in seen: continue
        seen.add(kk); print(k, "\n    ", str(v)[:3000])
    for sw, port, srv in servers.values(): srv.stop(None)
    shutil.rmtree(d, ignore_errors=True)
