import warnings, os, tempfile, shutil, time, collections, sqlite3
warnings.simplefilter("ignore")
import optuna
optuna.logging.set_verbosity(optuna.logging.ERROR)
import optuna.storages._rdb.storage as rs, optuna.storages._rdb.models as rm, optuna.storages._heartbeat as hb
from optuna.storages import RDBStorage, RetryFailedTrialCallback
from optuna.trial import TrialState
from sched2 import *
d = tempfile.mkdtemp(dir="/dev/shm")
def scenario(preempt):
    for f in os.listdir(d): os.unlink(os.path.join(d, f))
    p = os.path.join(d, "s.db"); url = "sqlite:///" + p
    calls = collections.Counter()
    def cb(study, trial):
        calls[trial.number] += 1; RetryFailedTrialCallback(max_retry=3)(study, trial)
    mk = lambda: RDBStorage(url, engine_kwargs={"connect_args": {"timeout": 0}}, heartbeat_interval=1, grace_period=2, failed_trial_callback=cb)
    s0 = mk(); st0 = optuna.create_study(storage=s0, study_name="q")
    t = st0.ask(); t.suggest_float("x", 0, 1); s0.record_heartbeat(t._trial_id)
    s0.engine.dispose()
    con = sqlite3.connect(p); con.execute("UPDATE trial_heartbeats SET heartbeat = datetime('now', '-1000 seconds')"); con.commit(); con.close()
    sched = Scheduler([rs.__file__, rm.__file__, hb.__file__], preempt)
    sA, sB = mk(), mk()
    stA = optuna.load_study(study_name="q", storage=sA); stB = optuna.load_study(study_name="q", storage=sB)
    res = sched.run({"A": lambda: optuna.storages.fail_stale_trials(stA), "B": lambda: optuna.storages.fail_stale_trials(stB)})
    chk = mk(); trials = chk.get_all_trials(stA._study_id)
    for s in (sA, sB, chk): s.engine.dispose()
    return res, trials, calls, sched
res, trials, calls, sched = scenario({})
print("baseline:", [(t.number, t.state.name, t.system_attrs.get("retry_history")) for t in trials], dict(calls), "steps", sched.steps)
n = sched.steps; viol = []; outc = collections.Counter()
for k in range(n + 1):
    res, trials, calls, sc = scenario({k: 0})
    retries = [t for t in trials if t.system_attrs.get("failed_trial") == 0]
    outc[(tuple(sorted(type(r[1]).__name__ if r[0] == "exc" else "ok" for r in res.values())), len(retries), calls[0])] += 1
    if calls[0] > 1 or len(retries) > 1: viol.append(k)
print("schedules", n + 1, "violating", len(viol), viol[:10]); print(dict(outc))
shutil.rmtree(d, ignore_errors=True)
