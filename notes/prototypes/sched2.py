"""Scheduler prototype v2: virtual time, sleep-as-yield, generic lock replacement."""
import sys, threading, os, _thread

class Deadlock(Exception): pass

class Scheduler:
    def __init__(self, target_files, preempt):
        self.targets = set(target_files); self.preempt = dict(preempt)  # step -> index of other thread
        self.th = {}; self.cv = threading.Condition(); self.current = None; self.steps = 0
        self.now = 0.0; self.switches = []
    def _tracer(self, frame, event, arg):
        if event == 'call' and frame.f_code.co_filename in self.targets: return self._local
        return None
    def _local(self, frame, event, arg):
        if event == 'line': self.yield_point()
        return self._local
    def _park(self, me):
        self.current = None; self.cv.notify_all()
        while self.current != me: self.cv.wait()
    def yield_point(self):
        me = threading.current_thread().name
        if me not in self.th: return
        with self.cv:
            self.steps += 1; self._park(me)
    def sleep(self, secs):
        me = threading.current_thread().name
        if me not in self.th: return
        with self.cv:
            self.th[me]['wake'] = self.now + secs; self._park(me); self.th[me]['wake'] = None
    def block_on(self, lock):
        me = threading.current_thread().name
        with self.cv:
            self.th[me]['blocked'] = lock; self._park(me); self.th[me]['blocked'] = None
    def run(self, funcs):
        results = {}
        def wrap(name, f):
            def body():
                with self.cv:
                    while self.current != name: self.cv.wait()
                sys.settrace(self._tracer)
                try: results[name] = ("ok", f())
                except BaseException as e: results[name] = ("exc", e)
                finally:
                    sys.settrace(None)
                    with self.cv:
                        self.th[name]['done'] = True; self.current = None; self.cv.notify_all()
            return body
        ths = []
        for name, f in funcs.items():
            self.th[name] = dict(done=False, blocked=None, wake=None)
            t = threading.Thread(target=wrap(name, f), name=name, daemon=True); ths.append(t); t.start()
        names = list(funcs); last = None
        with self.cv:
            while True:
                live = [n for n in names if not self.th[n]['done']]
                if not live: break
                runnable = [n for n in live if (self.th[n]['blocked'] is None or not self.th[n]['blocked'].held_by_other(n)) and self.th[n]['wake'] is None]
                if not runnable:
                    sleepers = [n for n in live if self.th[n]['wake'] is not None]
                    if not sleepers: raise Deadlock(str(self.th))
                    n0 = min(sleepers, key=lambda n: self.th[n]['wake']); self.now = max(self.now, self.th[n0]['wake']); self.th[n0]['wake'] = None
                    runnable = [n0]
                pick = last if last in runnable else runnable[0]
                if self.steps in self.preempt and last in runnable:
                    others = [r for r in runnable if r != last]
                    if others: pick = others[self.preempt.pop(self.steps) % len(others)]; self.switches.append(self.steps)
                last = pick; self.current = pick; self.cv.notify_all()
                while self.current is not None: self.cv.wait(timeout=20)
        for t in ths: t.join()
        return results

class SchedLock:
    def __init__(self, sched, reentrant=False): self.s = sched; self.owner = None; self.count = 0; self.re = reentrant
    def held_by_other(self, n): return self.owner is not None and self.owner != n
    def acquire(self, blocking=True, timeout=-1):
        me = threading.current_thread().name
        if me in self.s.th:
            while self.owner is not None and (self.owner != me or not self.re):
                if self.owner == me: raise RuntimeError("self deadlock")
                self.s.block_on(self)
        self.owner = me; self.count += 1; return True
    def release(self):
        self.count -= 1
        if self.count == 0: self.owner = None
    def __enter__(self): self.acquire(); return self
    def __exit__(self, *a): self.release()
    def locked(self): return self.owner is not None

LOCK_T = type(threading.Lock()); RLOCK_T = type(threading.RLock())
def replace_locks(obj, sched, seen=None, depth=0):
    seen = seen if seen is not None else set()
    if id(obj) in seen or depth > 3 or not hasattr(obj, "__dict__"): return
    seen.add(id(obj))
    for k, v in list(vars(obj).items()):
        if isinstance(v, LOCK_T): setattr(obj, k, SchedLock(sched))
        elif isinstance(v, RLOCK_T): setattr(obj, k, SchedLock(sched, True))
        elif type(v).__module__.startswith("optuna"): replace_locks(v, sched, seen, depth + 1)
