"""Prototype syscall layer for optuna.storages.journal._file (feasibility)."""
import os as _os, time as _time, builtins, io

class WorkerDied(BaseException): pass

class Ctx:
    """Per-process-simulation context: which worker is 'current', counters, crash plan."""
    def __init__(self):
        self.worker = None; self.dead = set(); self.calls = 0; self.crash_at = None; self.cut = None
        self.trace = []; self.now = 0.0; self.hook = lambda tag: None   # hook = scheduler yield
    def tick(self, tag):
        if self.worker in self.dead: raise WorkerDied()
        self.calls += 1; self.trace.append((self.worker, tag))
        self.hook(tag)
        if self.crash_at is not None and self.calls == self.crash_at and self.cut is None:
            self.dead.add(self.worker); raise WorkerDied()

class FakeOS:
    def __init__(self, ctx): self.c = ctx; self.path = _os.path; self.O_CREAT = _os.O_CREAT; self.O_EXCL = _os.O_EXCL; self.O_WRONLY = _os.O_WRONLY
    def __getattr__(self, name):
        real = getattr(_os, name)
        if not callable(real): return real
        def f(*a, **k):
            self.c.tick("os." + name)
            return real(*a, **k)
        return f

class FakeFile:
    def __init__(self, ctx, path, mode, chunks):
        self.c = ctx; self.f = builtins.open(path, mode, buffering=0); self.chunks = chunks
    def __enter__(self): return self
    def __exit__(self, *a): self.f.close()
    def close(self): self.f.close()
    def seek(self, off, whence=0): self.c.tick("seek"); return self.f.seek(off, whence)
    def read(self, n=-1): self.c.tick("read"); return self.f.read(n)
    def tell(self): return self.f.tell()
    def truncate(self, size=None): self.c.tick("truncate"); return self.f.truncate(size)
    def fileno(self): return self.f.fileno()
    def flush(self): self.c.tick("flush")
    def __iter__(self): return self
    def __next__(self):
        self.c.tick("readline")
        line = self.f.readline()
        if not line: raise StopIteration
        return line
    def write(self, data):
        pos = 0; n = len(data)
        sizes = list(self.chunks) or [n]
        while pos < n:
            k = sizes.pop(0) if sizes else n - pos
            k = max(1, min(k, n - pos))
            self.c.calls += 1; self.c.trace.append((self.c.worker, "write"))
            if self.c.worker in self.c.dead: raise WorkerDied()
            if self.c.crash_at is not None and self.c.calls == self.c.crash_at:
                cut = self.c.cut if self.c.cut is not None else 0
                self.f.write(data[pos:pos + min(cut, k)]); self.c.dead.add(self.c.worker); raise WorkerDied()
            self.c.hook("write")
            self.f.write(data[pos:pos + k]); pos += k
        return n

class FakeTime:
    def __init__(self, ctx): self.c = ctx
    def monotonic(self): return self.c.now
    def sleep(self, s): self.c.now += s; self.c.tick("sleep")
    def __getattr__(self, n): return getattr(_time, n)

def install(mod, ctx, chunks=()):
    mod.os = FakeOS(ctx); mod.time = FakeTime(ctx)
    mod.open = lambda path, mode="r": FakeFile(ctx, path, mode, chunks)
