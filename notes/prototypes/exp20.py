import warnings, math, os, tempfile, time, shutil, sys, collections, pickle, copy
warnings.simplefilter("ignore")
import optuna, fakeredis
optuna.logging.set_verbosity(optuna.logging.ERROR)
from optuna.storages import JournalStorage
from optuna.storages.journal import JournalFileBackend, JournalRedisBackend, BaseJournalBackend
from optuna.storages.journal._base import BaseJournalSnapshot
import optuna.storages.journal._storage as js
from optuna.trial import TrialState, create_trial
from optuna.study import StudyDirection
from optuna.distributions import FloatDistribution, IntDistribution, CategoricalDistribution
from optuna.exceptions import *
from hypothesis import given, settings, strategies as st, HealthCheck, seed, Phase
d = tempfile.mkdtemp(dir="/dev/shm"); cnt = [0]

class Limited(BaseJournalBackend):
    """read_logs returns at most `next limit` records (legal: any prefix)."""
    def __init__(self, inner, limits): self.inner = inner; self.limits = list(limits)
    def read_logs(self, k):
        logs = self.inner.read_logs(k)
        lim = self.limits.pop(0) if self.limits else None
        return logs if lim is None else logs[:lim]
    def append_logs(self, logs): self.inner.append_logs(logs)
class Hook(BaseJournalBackend):
    """lets another worker append between this worker's append and its read."""
    pending = None
    def __init__(self, inner): self.inner = inner
    def read_logs(self, k): return self.inner.read_logs(k)
    def append_logs(self, logs):
        self.inner.append_logs(logs)
        if Hook.pending is not None:
            f, Hook.pending = Hook.pending, None
            f()
class HookSnap(Hook, BaseJournalSnapshot):
    def save_snapshot(self, s): self.inner.save_snapshot(s)
    def load_snapshot(self): return self.inner.load_snapshot()
class LimitedSnap(Limited, BaseJournalSnapshot):
    def save_snapshot(self, s): self.inner.save_snapshot(s)
    def load_snapshot(self): return self.inner.load_snapshot()

def state_of(s):
    out = {"studies": [(fs._study_id, fs.study_name, fs.directions, fs.user_attrs, fs.system_attrs) for fs in s.get_all_studies()]}
    for fs in s.get_all_studies():
        out[fs._study_id] = s.get_all_trials(fs._study_id)
    return pickle.dumps(out)  # FrozenTrial pickles incl. datetimes

def fully_sync(s):
    # a Limited backend may need several reads to catch up
    for _ in range(200): s.get_all_studies()

bad = collections.defaultdict(list); n = collections.Counter()
dists = [FloatDistribution(0, 1), IntDistribution(0, 5), CategoricalDistribution(["a", "b"]), FloatDistribution(1, 10, log=True)]
@settings(max_examples=int(sys.argv[1]), deadline=None, database=None, suppress_health_check=list(HealthCheck), phases=[Phase.generate])
@seed(13)
@given(st.data())
def run(data):
    kind = data.draw(st.sampled_from(["file", "redis"]))
    js.SNAPSHOT_INTERVAL = data.draw(st.sampled_from([2, 3, 100]))
    if kind == "file":
        cnt[0] += 1; p = os.path.join(d, "j%d.log" % cnt[0]); mkb = lambda: JournalFileBackend(p)
    else:
        r = fakeredis.FakeStrictRedis()
        def mkb():
            b = JournalRedisBackend("redis://localhost"); b._redis = r; return b
    W = []
    for i in range(data.draw(st.integers(2, 3))):
        b = mkb()
        b = (HookSnap if isinstance(b, BaseJournalSnapshot) else Hook)(b)
        W.append(JournalStorage(b))
    observers = [JournalStorage(mkb()) for _ in range(2)]
    sids = []; tids = []
    for step in range(data.draw(st.integers(3, 40))):
        wi = data.draw(st.integers(0, len(W) - 1)); w = W[wi]
        if data.draw(st.integers(0, 4)) == 0:
            other = W[(wi + 1) % len(W)]; k = step
            def intr(other=other, k=k):
                try: other.set_study_user_attr(0, "intr", k)
                except KeyError: pass
            Hook.pending = intr
        for o in observers:
            if data.draw(st.integers(0, 3)) == 0: o.get_all_studies()
        op = data.draw(st.sampled_from(["study", "study", "del", "sattr", "trial", "trial", "tmpl", "param", "state", "state", "iv", "tattr"]))
        try:
            if op == "study": sids.append(w.create_new_study([StudyDirection.MINIMIZE], data.draw(st.sampled_from(["a", "b", "c", "d"]))))
            elif op == "del": w.delete_study(data.draw(st.integers(0, 4)))
            elif op == "sattr": w.set_study_user_attr(data.draw(st.integers(0, 4)), "k", step)
            elif op == "trial": tids.append(w.create_new_trial(data.draw(st.integers(0, 4))))
            elif op == "tmpl": tids.append(w.create_new_trial(data.draw(st.integers(0, 4)), create_trial(state=data.draw(st.sampled_from([TrialState.WAITING, TrialState.COMPLETE])), value=1.0)))
            elif op == "param": w.set_trial_param(data.draw(st.integers(0, 8)), data.draw(st.sampled_from("xy")), 1.0, data.draw(st.sampled_from(dists)))
            elif op == "state": w.set_trial_state_values(data.draw(st.integers(0, 8)), data.draw(st.sampled_from([TrialState.RUNNING, TrialState.COMPLETE, TrialState.FAIL])), [1.0])
            elif op == "iv": w.set_trial_intermediate_value(data.draw(st.integers(0, 8)), 0, 0.5)
            elif op == "tattr": w.set_trial_user_attr(data.draw(st.integers(0, 8)), "k", step)
            n["ok"] += 1
        except (KeyError, DuplicatedStudyError, UpdateFinishedTrialError, ValueError) as e:
            n["rejected"] += 1
        except Exception as e:
            bad["unexpected exception", type(e).__name__].append(str(e)[:200])
    Hook.pending = None
    W = W + observers
    states = [state_of(w) for w in W]
    fresh = JournalStorage(mkb()); fs = state_of(fresh)
    n["runs"] += 1
    for i, s in enumerate(states):
        if s != fs:
            a = pickle.loads(s); b = pickle.loads(fs)
            bad["worker != fresh", kind, type(W[i]._backend).__name__].append(([k for k in set(a) | set(b) if a.get(k) != b.get(k)]))
t0 = time.time()
try: run()
finally:
    print("C06 time %.1f" % (time.time() - t0), dict(n))
    for k, v in sorted(bad.items(), key=lambda x: -len(x[1])): print(len(v), k, str(v[0])[:400])
    shutil.rmtree(d, ignore_errors=True)
