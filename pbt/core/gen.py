"""Shared Hypothesis strategies.  Everything is generated as plain data ("specs") so that a
case is JSON-serialisable; `make_dist` etc. turn specs into optuna objects."""
from __future__ import annotations

import math
import warnings
from decimal import Decimal
from typing import Any

from hypothesis import strategies as st


# --------------------------------------------------------------------------------------
# floats of "ordinary magnitude"
# --------------------------------------------------------------------------------------


def clean_decimal(max_abs: float = 1e6, max_digits: int = 4) -> st.SearchStrategy[float]:
    """n / 10**k: the floats people type."""

    def mk(t: tuple[int, int]) -> float:
        n, k = t
        return float(Decimal(n) / (Decimal(10) ** k))

    return st.tuples(
        st.integers(-int(max_abs), int(max_abs)), st.integers(0, max_digits)
    ).map(mk)


def full_float(max_abs: float = 1e9) -> st.SearchStrategy[float]:
    return st.floats(-max_abs, max_abs, allow_nan=False, allow_infinity=False)


def computed_float(max_abs: float = 1e4) -> st.SearchStrategy[float]:
    """Results of float arithmetic on clean decimals (0.1 + 0.2, 1.1 * 3, ...)."""
    a = clean_decimal(max_abs, 3)
    return st.one_of(
        st.tuples(a, a).map(lambda t: t[0] + t[1]),
        st.tuples(a, st.integers(1, 12)).map(lambda t: t[0] * t[1]),
        st.tuples(a, st.integers(1, 12)).map(lambda t: t[0] / t[1]),
    )


def any_float(max_abs: float = 1e9) -> st.SearchStrategy[float]:
    return st.one_of(clean_decimal(min(max_abs, 1e6)), full_float(max_abs), computed_float())


def positive_step() -> st.SearchStrategy[float]:
    return st.one_of(
        st.sampled_from([0.1, 0.01, 0.001, 0.5, 0.25, 0.2, 0.3, 0.7, 1.0, 2.0, 2.5, 1e-3, 0.05]),
        clean_decimal(1e4, 4).map(abs).filter(lambda x: x >= 1e-4),
        st.floats(1e-6, 1e4, allow_nan=False),
        computed_float(100).map(abs).filter(lambda x: 1e-6 <= x <= 1e4),
    )


# --------------------------------------------------------------------------------------
# distribution specs
# --------------------------------------------------------------------------------------


@st.composite
def float_plain_spec(draw: Any, deprecated: bool = False) -> dict[str, Any]:
    a = draw(any_float())
    mode = draw(st.sampled_from(["wide", "wide", "tiny", "single"]))
    if mode == "single":
        b = a
    elif mode == "tiny":
        b = a
        for _ in range(draw(st.integers(1, 6))):
            b = math.nextafter(b, math.inf)
    else:
        b = draw(any_float())
    low, high = (a, b) if a <= b else (b, a)
    kind = "Uniform" if deprecated else "Float"
    return {"kind": kind, "low": low, "high": high, "log": False, "step": None}


@st.composite
def float_log_spec(draw: Any, deprecated: bool = False) -> dict[str, Any]:
    mode = draw(st.sampled_from(["decades", "near1", "tiny", "single", "any"]))
    if mode == "decades":
        low = 10.0 ** draw(st.integers(-9, 8))
        high = low * 10.0 ** draw(st.integers(0, 9 - int(math.log10(low)) if low < 1e9 else 0))
    elif mode == "near1":
        low = 1.0 - draw(st.floats(0, 1e-4))
        high = 1.0 + draw(st.floats(0, 1e-4))
    elif mode == "tiny":
        low = draw(st.floats(1e-9, 1e9))
        high = low
        for _ in range(draw(st.integers(1, 6))):
            high = math.nextafter(high, math.inf)
    elif mode == "single":
        low = high = draw(st.floats(1e-9, 1e9))
    else:
        a = draw(st.floats(1e-9, 1e9))
        b = draw(st.floats(1e-9, 1e9))
        low, high = min(a, b), max(a, b)
    kind = "LogUniform" if deprecated else "Float"
    return {"kind": kind, "low": low, "high": high, "log": True, "step": None}


@st.composite
def float_step_spec(draw: Any, deprecated: bool = False, max_steps: int = 10**6) -> dict[str, Any]:
    step = draw(positive_step())
    # |low| <= 1e6 * step keeps the grid points distinct doubles ("ordinary magnitudes")
    low = draw(
        st.one_of(
            st.integers(-1000, 1000).map(lambda k: k * step),
            clean_decimal(1e4, 3),
            computed_float(1e3),
            st.just(0.0),
        )
    )
    if abs(low) > 1e6 * step:
        low = 0.0
    n = draw(st.one_of(st.integers(0, 12), st.integers(0, max_steps)))
    mode = draw(st.sampled_from(["exact", "decimal", "excess", "excess", "single"]))
    if mode == "exact":
        high = low + n * step
    elif mode == "decimal":
        high = float(Decimal(str(low)) + n * Decimal(str(step)))
    elif mode == "single":
        high = low + draw(st.floats(0, 0.999)) * step
    else:
        high = low + (n + draw(st.floats(0.001, 0.999))) * step
    if high < low:
        high = low
    kind = "DiscreteUniform" if deprecated else "Float"
    return {"kind": kind, "low": low, "high": high, "log": False, "step": step}


@st.composite
def int_spec(draw: Any, deprecated: bool = False, max_abs: int = 2**52) -> dict[str, Any]:
    log = draw(st.booleans())
    big = st.one_of(st.integers(-100, 100), st.integers(-max_abs, max_abs))
    if log:
        low = draw(st.one_of(st.integers(1, 100), st.integers(1, max_abs)))
        high = draw(st.one_of(st.integers(low, low + 100), st.integers(low, max_abs)))
        high = min(high, max_abs)
        step = 1
        kind = "IntLogUniform" if deprecated else "Int"
    else:
        a, b = draw(big), draw(st.one_of(big, st.integers(0, 30)))
        if draw(st.booleans()):
            b = a + abs(b) % 64
        low, high = min(a, b), min(max(a, b), max_abs)
        step = draw(st.one_of(st.just(1), st.integers(1, 12), st.integers(1, max(1, high - low + 3))))
        kind = "IntUniform" if deprecated else "Int"
    return {"kind": kind, "low": low, "high": high, "log": log, "step": step}


_choice_atoms = st.one_of(
    st.none(),
    st.booleans(),
    st.integers(-5, 5),
    st.integers(-(2**40), 2**40),
    st.sampled_from([0.5, -1.5, 1e-7, 3.25, 1e300, float("inf"), float("-inf"), float("nan")]),
    st.floats(allow_nan=False, allow_infinity=False),
    st.text(max_size=5),
    st.sampled_from(["a", "b", "adam", "sgd", "", "None", "1", "True", "nan"]),
)


def _choice_key(c: Any) -> Any:
    if isinstance(c, float) and math.isnan(c):
        return "NAN"
    if isinstance(c, (bool, int, float)):
        return ("num", float(c)) if abs(c) < 2**60 else ("num", c)
    return (type(c).__name__, c)


@st.composite
def categorical_spec(draw: Any, max_choices: int = 6) -> dict[str, Any]:
    # choices pairwise non-equal under ==  (True == 1 == 1.0 is a documented limitation of
    # CategoricalDistribution.to_internal_repr; kept out of the domain, see DESIGN C11 Sound)
    raw = draw(st.lists(_choice_atoms, min_size=1, max_size=max_choices))
    seen = set()
    out = []
    for c in raw:
        k = _choice_key(c)
        if k in seen:
            continue
        seen.add(k)
        out.append(c)
    return {"kind": "Categorical", "choices": out}


def dist_spec(deprecated: bool = True) -> st.SearchStrategy[dict[str, Any]]:
    base = [
        float_plain_spec(),
        float_log_spec(),
        float_step_spec(),
        float_step_spec(),
        int_spec(),
        categorical_spec(),
    ]
    if deprecated:
        base += [
            float_plain_spec(True),
            float_log_spec(True),
            float_step_spec(True),
            int_spec(True),
        ]
    return st.one_of(base)


def make_dist(spec: dict[str, Any]) -> Any:
    import optuna.distributions as D

    with warnings.catch_warnings():
        warnings.simplefilter("ignore")
        k = spec["kind"]
        if k == "Float":
            return D.FloatDistribution(spec["low"], spec["high"], log=spec["log"], step=spec["step"])
        if k == "Uniform":
            return D.UniformDistribution(spec["low"], spec["high"])
        if k == "LogUniform":
            return D.LogUniformDistribution(spec["low"], spec["high"])
        if k == "DiscreteUniform":
            return D.DiscreteUniformDistribution(spec["low"], spec["high"], spec["step"])
        if k == "Int":
            return D.IntDistribution(spec["low"], spec["high"], log=spec["log"], step=spec["step"])
        if k == "IntUniform":
            return D.IntUniformDistribution(spec["low"], spec["high"], spec["step"])
        if k == "IntLogUniform":
            return D.IntLogUniformDistribution(spec["low"], spec["high"])
        if k == "Categorical":
            return D.CategoricalDistribution(tuple(spec["choices"]))
    raise ValueError(k)


def dist_class(spec: dict[str, Any]) -> str:
    k = spec["kind"]
    if k == "Categorical":
        return "categorical"
    if k in ("Int", "IntUniform", "IntLogUniform"):
        return "int_log" if spec["log"] else ("int_step" if spec["step"] != 1 else "int")
    if spec.get("log"):
        return "float_log"
    if spec.get("step") is not None:
        return "float_step"
    return "float"


def ulp_dist(a: float, b: float) -> float:
    """|a-b| in units of the ulp of the larger magnitude."""
    if a == b:
        return 0.0
    m = max(abs(a), abs(b))
    return abs(a - b) / math.ulp(m)
