"""Concurrency environments for the scheduler-based checks (C03, C04, C08b, C19).

An Env builds, for one schedule, the storage objects of the workers of a layout:

    threads:<kind>     all workers share ONE storage object (threads of one process)
    procs:<kind>       every worker has its OWN storage object on the same file / redis /
                       database ("processes": own caches, own journal backend + lock object)

kinds: inmemory (threads only), sqlite, cached_sqlite, journal_file, journal_file_open,
journal_redis.  Yield points: every source line of the layout's target files (sys.settrace),
every system call of the journal file backend (faultfs), every lock operation.  SQLite
connections get timeout=0 so that contention surfaces at once as the documented
StorageInternalError instead of blocking inside C code where the scheduler cannot see it.
"""
from __future__ import annotations

import os
import shutil
import warnings
from typing import Any

from core import faultfs
from core.sched import Scheduler, replace_locks

LAYOUTS = [
    "threads:inmemory",
    "threads:cached_sqlite",
    "threads:sqlite",
    "threads:journal_file",
    "threads:journal_redis",
    "procs:sqlite",
    "procs:cached_sqlite",
    "procs:journal_file",
    "procs:journal_file_open",
    "procs:journal_redis",
    # JournalRedisBackend(use_cluster=True): an append is reserve-a-number, then store the record
    # (two commands), with yield points on every line of _redis.py
    "procs:journal_redis_cluster",
]


def target_files(layout: str, extra: tuple[str, ...] = ()) -> tuple[str, ...]:
    import optuna.storages._cached_storage as cs
    import optuna.storages._in_memory as im
    import optuna.storages._rdb.storage as rs
    import optuna.storages.journal._storage as js

    kind = layout.split(":")[1]
    if kind == "inmemory":
        f = [im.__file__]
    elif kind == "sqlite":
        f = [rs.__file__]
    elif kind == "cached_sqlite":
        f = [cs.__file__, rs.__file__]
    elif kind == "journal_redis_cluster":
        import optuna.storages.journal._redis as jr

        f = [js.__file__, jr.__file__]
    else:
        f = [js.__file__]
    return tuple(f) + tuple(extra)


class _SchedTime:
    """`time` for a module whose sleeps must run on the scheduler's virtual clock."""

    def __init__(self, sched: Scheduler) -> None:
        self._s = sched

    def sleep(self, secs: float) -> None:
        if self._s.me() is not None and self._s.active:
            self._s.sleep(secs)

    def __getattr__(self, n: str) -> Any:
        import time as _t

        return getattr(_t, n)


class _SameIdent:
    """`threading` for journal/_storage.py in the "processes" layouts: every worker is the main
    thread of its own (forked) process, and those all report the same ident."""

    def __init__(self, real: Any) -> None:
        self._real = real

    def get_ident(self) -> int:
        return 140000000000000

    def __getattr__(self, n: str) -> Any:
        return getattr(self._real, n)


class Env:
    """One schedule's worth of storages.  Use as a context manager."""

    def __init__(self, layout: str, tmpdir: str, sched: Scheduler, n_workers: int, rdb_kwargs: dict[str, Any] | None = None, pickled: bool = False) -> None:
        # pickled: the "processes" get their journal storage as a pickled copy of the set-up
        # storage (process pools, joblib, dask) instead of constructing their own
        self.pickled = pickled
        self.layout = layout
        self.mode, self.kind = layout.split(":")
        self.tmpdir = tmpdir
        self.sched = sched
        self.n = n_workers
        self.rdb_kwargs = rdb_kwargs or {}
        self._engines: list[Any] = []
        self.sql_points: set[int] = set()
        self._paths: list[str] = []
        self.fctx: faultfs.Ctx | None = None
        self._redis: Any = None
        self.path = os.path.join(tmpdir, f"conc-{os.getpid()}")

    # ---- construction -----------------------------------------------------------------
    def _template(self) -> str:
        import optuna

        t = os.path.join(self.tmpdir, f"conc-template-{os.getpid()}.db")
        if not os.path.exists(t):
            s = optuna.storages.RDBStorage(f"sqlite:///{t}")
            s.engine.dispose()
        return t

    def _rdb(self, **kw: Any) -> Any:
        import optuna

        s = optuna.storages.RDBStorage(
            f"sqlite:///{self.path}.db",
            engine_kwargs={"connect_args": {"timeout": 0}},
            skip_compatibility_check=True,
            skip_table_creation=True,
            **{**self.rdb_kwargs, **kw},
        )
        self._engines.append(s)
        # remember at which yield points the workers talk to the database: the interleavings that
        # matter on an RDB layout are those between SQL statements / commits, a small subset of
        # the source-line yield points
        import sqlalchemy

        def mark(*a: Any, **k: Any) -> None:
            if self.sched.active and self.sched.me() is not None:
                self.sql_points.update((max(0, self.sched.steps - 1), self.sched.steps))

        for ev in ("before_cursor_execute", "after_cursor_execute", "commit", "begin", "rollback"):
            sqlalchemy.event.listen(s.engine, ev, mark)
        return s

    def new_storage(self) -> Any:
        import optuna
        from optuna.storages.journal import JournalFileBackend, JournalFileOpenLock, JournalFileSymlinkLock, JournalRedisBackend

        k = self.kind
        if k == "inmemory":
            return optuna.storages.InMemoryStorage()
        if k == "sqlite":
            return self._rdb()
        if k == "cached_sqlite":
            return optuna.storages._CachedStorage(self._rdb())
        if k in ("journal_file", "journal_file_open"):
            p = self.path + ".log"
            lock = JournalFileSymlinkLock(p) if k == "journal_file" else JournalFileOpenLock(p)
            return optuna.storages.JournalStorage(JournalFileBackend(p, lock_obj=lock))
        if k in ("journal_redis", "journal_redis_cluster"):
            import fakeredis

            if self._redis is None:
                self._redis = fakeredis.FakeStrictRedis()
            be = JournalRedisBackend("redis://localhost", use_cluster=k.endswith("cluster"))
            be._redis = self._redis
            return optuna.storages.JournalStorage(be)
        raise ValueError(k)

    def __enter__(self) -> "Env":
        warnings.simplefilter("ignore")
        for suffix in (".db", ".log", ".log.lock", ".db-journal"):
            if os.path.lexists(self.path + suffix):
                os.unlink(self.path + suffix)
        if self.kind in ("sqlite", "cached_sqlite"):
            shutil.copyfile(self._template(), self.path + ".db")
        if self.kind.startswith("journal_file"):
            self.fctx = faultfs.Ctx(self.sched)
            faultfs.install(self.fctx)
        if self.kind.startswith("journal_redis"):
            # snapshots every second study / trial: the final view (a fresh worker) then starts
            # from a snapshot taken during the race plus the tail of the log
            import optuna.storages.journal._storage as js

            self._old_interval = js.SNAPSHOT_INTERVAL
            js.SNAPSHOT_INTERVAL = 2
        if self.kind == "journal_redis_cluster":
            # a reader waits (time.sleep) for a reserved record that is not stored yet: on the
            # scheduler's virtual clock
            import optuna.storages.journal._redis as jr

            self._old_redis_time = jr.__dict__.get("time")
            jr.time = _SchedTime(self.sched)  # type: ignore[attr-defined]
        if self.mode == "procs" and self.kind.startswith("journal"):
            # the main threads of forked processes all have the same thread ident, and the journal
            # identifies a worker by (per-object uuid, thread ident): model that
            import optuna.storages.journal._storage as js

            self._old_threading = js.threading
            js.threading = _SameIdent(js.threading)  # type: ignore[assignment]
        # the set-up storage (pre-history) and the workers' storages
        self.setup = self.new_storage()
        return self

    def worker_storages(self) -> list[Any]:
        """Call after the pre-history was written through self.setup."""
        if self.mode == "threads":
            st = [self.setup] * self.n
        elif self.pickled and self.kind.startswith("journal"):
            import pickle

            st = [pickle.loads(pickle.dumps(self.setup)) for _ in range(self.n)]
            if self._redis is not None:
                for s in st:
                    s._backend._redis = self._redis  # a restored redis backend reconnects by URL
        else:
            st = [self.new_storage() for _ in range(self.n)]
            for s in st:  # let every "process" load the pre-history before the race starts
                s.get_all_studies()
        for s in {id(x): x for x in st}.values():
            replace_locks(s, self.sched)
        return st

    def fresh_view(self) -> Any:
        """A storage for checking the final state (threads layouts of volatile kinds: the shared one)."""
        if self.mode == "threads" and self.kind in ("inmemory",):
            return self.setup
        return self.new_storage()

    def __exit__(self, *a: Any) -> None:
        if not self.sched.preempt:
            LAST_SQL_POINTS[:] = sorted(self.sql_points)
        if self.fctx is not None:
            faultfs.uninstall()
        if self.kind.startswith("journal_redis"):
            import optuna.storages.journal._storage as js

            js.SNAPSHOT_INTERVAL = self._old_interval
        if self.kind == "journal_redis_cluster":
            import optuna.storages.journal._redis as jr

            if self._old_redis_time is None:
                jr.__dict__.pop("time", None)
            else:
                jr.time = self._old_redis_time  # type: ignore[attr-defined]
        if self.mode == "procs" and self.kind.startswith("journal"):
            import optuna.storages.journal._storage as js

            js.threading = self._old_threading  # type: ignore[assignment]
        for s in self._engines:
            try:
                s.scoped_session.remove()
                s.engine.dispose()
            except Exception:  # noqa: BLE001
                pass
        for suffix in (".db", ".log", ".log.lock", ".db-journal"):
            if os.path.lexists(self.path + suffix):
                try:
                    os.unlink(self.path + suffix)
                except OSError:
                    pass


LAST_SQL_POINTS: list[int] = []  # yield points next to an SQL statement / commit, of the last unpreempted run


def sql_switch_points(n_steps: int, n_workers: int, cap: int, salt: int = 0) -> list[dict[int, int]]:
    """Single preemptions right before / right after every SQL statement and commit of the last
    unpreempted run (at most `cap` of them, evenly thinned)."""
    pts = [p for p in LAST_SQL_POINTS if 0 <= p < n_steps]
    if len(pts) > cap:
        stride = -(-len(pts) // cap)
        pts = pts[salt % stride :: stride]
    others = max(1, n_workers - 1)
    return [{p: (i + salt) % others} for i, p in enumerate(pts)]


def switch_points(n_steps: int, n_workers: int, limit: int, salt: int = 0) -> list[dict[int, int]]:
    """All single-preemption schedules (every yield point x every other worker), or a stratified
    sample of about `limit` of them: a stride over the yield points with a rotating offset, so
    that a window of consecutive yield points wider than the stride is always hit."""
    others = max(1, n_workers - 1)
    total = n_steps * others
    if total <= limit:
        return [{s: c} for s in range(n_steps) for c in range(others)]
    stride = -(-total // limit)
    out = []
    for i, s in enumerate(range(salt % stride, n_steps, stride)):
        out.append({s: i % others})
    return out
