"""Deterministic define-by-run objective programs, sampler specs and pruner specs as data
(used by C09, C10, C13, C02, C20)."""
from __future__ import annotations

import math
import warnings
from typing import Any

from hypothesis import strategies as st

# ------------------------------------------------------------------------------------------
# parameters
# ------------------------------------------------------------------------------------------

PARAMS: dict[str, dict[str, Any]] = {
    "x": {"kind": "float", "low": -5.0, "high": 5.0},
    "x2": {"kind": "float", "low": 0.0, "high": 1.0},
    "lr": {"kind": "float", "low": 1e-4, "high": 1.0, "log": True},
    "q": {"kind": "float", "low": -1.0, "high": 1.0, "step": 0.25},
    "q2": {"kind": "float", "low": 0.1, "high": 0.7, "step": 0.1},
    "n": {"kind": "int", "low": 0, "high": 8},
    "n2": {"kind": "int", "low": 1, "high": 64, "log": True},
    "n3": {"kind": "int", "low": 0, "high": 9, "step": 3},
    "c": {"kind": "cat", "choices": ["a", "b", "c"]},
    "c2": {"kind": "cat", "choices": [None, True, 2, 0.5, "x"]},
}
NUMERIC = [n for n, p in PARAMS.items() if p["kind"] != "cat"]
CATS = [n for n, p in PARAMS.items() if p["kind"] == "cat"]
DISCRETE = ["q", "q2", "n", "n3", "c"]


def suggest(trial: Any, name: str) -> Any:
    p = PARAMS[name]
    if p["kind"] == "float":
        return trial.suggest_float(name, p["low"], p["high"], log=p.get("log", False), step=p.get("step"))
    if p["kind"] == "int":
        return trial.suggest_int(name, p["low"], p["high"], log=p.get("log", False), step=p.get("step", 1))
    return trial.suggest_categorical(name, p["choices"])


def numeric(name: str, v: Any) -> float:
    p = PARAMS[name]
    if p["kind"] == "cat":
        return float(next(i for i, c in enumerate(p["choices"]) if type(c) is type(v) and c == v))
    if p.get("log"):
        return math.log(float(v))
    return float(v)


@st.composite
def program(draw: Any, n_obj: int | None = None, discrete_only: bool = False, max_steps: int = 6) -> dict[str, Any]:
    pool = DISCRETE if discrete_only else sorted(PARAMS)
    top = draw(st.lists(st.sampled_from(pool), min_size=1, max_size=4, unique=True))
    if draw(st.booleans()) and "c" not in top:
        top = ["c"] + top[:3] if draw(st.booleans()) else top[:3] + ["c"]
    branch = None
    cats = [n for n in top if n in CATS]
    if cats and draw(st.integers(0, 3)) > 0:
        on = cats[0]
        rest = [n for n in pool if n not in top]
        k = len(PARAMS[on]["choices"])
        branch = {"on": on, "arms": [draw(st.lists(st.sampled_from(rest), max_size=2, unique=True)) if rest else [] for _ in range(k)]}
    n_obj = n_obj or draw(st.sampled_from([1, 1, 1, 2, 3]))
    names = list(top) + sorted({n for arm in (branch["arms"] if branch else []) for n in arm})
    coef = st.integers(-3, 3)
    return {
        "top": top,
        "branch": branch,
        "n_obj": n_obj,
        # objective j = sum coef[j][name] * numeric(name) over the suggested names + const
        "coefs": [{n: draw(coef) for n in names} for _ in range(n_obj)],
        "consts": [draw(st.integers(-2, 2)) for _ in range(n_obj)],
        "n_steps": draw(st.integers(0, max_steps)) if n_obj == 1 else 0,
        "step_gap": draw(st.sampled_from([1, 1, 2, 3])),
        # order in which the steps are reported (storages may return them sorted or in report order)
        "step_order": draw(st.sampled_from(["inc", "inc", "dec", "zigzag"])),
        # the objective prunes itself after k reports in every / every 2nd / every 3rd trial (users do that with
        # their own criteria): gives PRUNED trials with several reports whatever the pruner decides
        "self_prune": draw(st.one_of(st.none(), st.tuples(st.integers(1, 4), st.integers(0, 2), st.sampled_from([1, 1, 2, 3])).map(list))),
        "slope": draw(st.sampled_from([-0.5, -0.25, 0.0, 0.25, 0.5])),
        # some reports are NaN / +inf / -inf (diverged training): report index s of trial number n
        # is replaced when (n + s) % mod == r
        "odd_reports": draw(st.one_of(st.none(), st.none(), st.none(), st.tuples(st.sampled_from([2, 3, 4]), st.integers(0, 3), st.sampled_from(["nan", "nan", "inf", "-inf"])).map(list))),
        "curve_on": draw(st.sampled_from(names)),
        # odd steps additionally depend on a second parameter, so that trials rank differently at
        # different steps
        "curve_on2": draw(st.sampled_from(names)),
        # fail (raise ValueError, caught) when numeric(fail_on) mod 3 lands in fail_set
        "fail_on": draw(st.one_of(st.none(), st.sampled_from(names))),
        "fail_band": draw(st.integers(0, 4)),
    }


def program_names(prog: dict[str, Any]) -> list[str]:
    return list(prog["top"]) + sorted({n for arm in (prog["branch"]["arms"] if prog["branch"] else []) for n in arm})


class Recorder:
    """What the objective saw, per trial number (compared across runs)."""

    def __init__(self) -> None:
        self.seen: dict[int, dict[str, Any]] = {}


def make_objective(prog: dict[str, Any], rec: Recorder | None = None, sign: list[float] | None = None, distinct: bool = False, dyadic: bool = False) -> Any:
    """sign[j] = -1 mirrors objective j (and, for single-objective programs, the reported
    intermediate values).  distinct=True adds number * 2**-20 so that values are pairwise distinct."""
    import optuna

    sign = sign or [1.0] * prog["n_obj"]

    def objective(trial: Any) -> Any:
        vals: dict[str, Any] = {}
        for n in prog["top"]:
            vals[n] = suggest(trial, n)
        if prog["branch"] is not None:
            on = prog["branch"]["on"]
            arm = prog["branch"]["arms"][int(numeric(on, vals[on]))]
            for n in arm:
                vals[n] = suggest(trial, n)
        if rec is not None:
            rec.seen[trial.number] = dict(vals)
        num = {n: numeric(n, v) for n, v in vals.items()}
        bump = trial.number * 2.0**-20 if distinct else 0.0
        fo = prog["fail_on"]
        if fo is not None and fo in num and prog["fail_band"] and int(abs(num[fo]) * 4) % 5 == prog["fail_band"]:
            raise ValueError("objective fails for this configuration")
        outs = []
        for j in range(prog["n_obj"]):
            f = float(prog["consts"][j]) + bump
            for n, c in prog["coefs"][j].items():
                if n in num:
                    f += c * num[n]
            outs.append(sign[j] * f)
        if prog["n_obj"] == 1 and prog["n_steps"]:
            base = num.get(prog["curve_on"], 0.0) + float(prog["consts"][0])
            if dyadic:
                base = math.floor(base * 8) / 8  # multiples of 1/8: exact percentile arithmetic
            base += bump
            order = list(range(prog["n_steps"]))
            n_rep = 0
            if prog.get("step_order") == "dec":
                order.reverse()
            elif prog.get("step_order") == "zigzag":
                order = order[1::2] + order[0::2]
            for s in order:
                step = s * prog["step_gap"]
                v = base + prog["slope"] * s
                if s % 2 and prog.get("curve_on2") in num:
                    extra = num[prog["curve_on2"]]
                    v += math.floor(extra * 8) / 8 if dyadic else extra
                odd = prog.get("odd_reports")
                if odd is not None and (trial.number + s) % odd[0] == odd[1] % odd[0]:
                    v = float(odd[2])
                trial.report(sign[0] * v, step)
                n_rep += 1
                sp = prog.get("self_prune")
                if sp is not None and n_rep >= sp[0] and trial.number % sp[2] == sp[1] % sp[2]:
                    raise optuna.TrialPruned()
                if trial.should_prune():
                    raise optuna.TrialPruned()
        return outs[0] if prog["n_obj"] == 1 else outs

    return objective


# ------------------------------------------------------------------------------------------
# samplers / pruners as data
# ------------------------------------------------------------------------------------------

SAMPLER_KINDS = [
    "random",
    "tpe",
    "tpe_mv",
    "tpe_group",
    "tpe_cl",
    "nsgaii",
    "nsgaii_sbx",
    "nsgaiii",
    "qmc_halton",
    "qmc_sobol",
    "qmc_sobol_scr",
    "brute",
    "partial_fixed",
]


@st.composite
def sampler_spec(draw: Any, kinds: list[str] | None = None, multi: bool = False) -> dict[str, Any]:
    kinds = kinds or SAMPLER_KINDS
    k = draw(st.sampled_from(kinds))
    return {"kind": k, "seed": draw(st.integers(0, 2**31 - 1)), "n_startup": draw(st.integers(1, 5)), "pop": draw(st.integers(2, 6)), "base": draw(st.sampled_from(["random", "tpe"]))}


def make_sampler(s: dict[str, Any], constraints: bool = False) -> Any:
    import optuna

    k, seed = s["kind"], s["seed"]
    with warnings.catch_warnings():
        warnings.simplefilter("ignore")
        S = optuna.samplers
        if k == "random":
            return S.RandomSampler(seed=seed)
        if k == "tpe":
            return S.TPESampler(seed=seed, n_startup_trials=s["n_startup"], n_ei_candidates=8)
        if k == "tpe_mv":
            return S.TPESampler(seed=seed, n_startup_trials=s["n_startup"], n_ei_candidates=8, multivariate=True)
        if k == "tpe_group":
            return S.TPESampler(seed=seed, n_startup_trials=s["n_startup"], n_ei_candidates=8, multivariate=True, group=True)
        if k == "tpe_cl":
            return S.TPESampler(seed=seed, n_startup_trials=s["n_startup"], n_ei_candidates=8, constant_liar=True)
        if k == "nsgaii":
            return S.NSGAIISampler(seed=seed, population_size=s["pop"])
        if k == "nsgaii_sbx":
            return S.NSGAIISampler(seed=seed, population_size=s["pop"], crossover=S.nsgaii.SBXCrossover())
        if k == "nsgaiii":
            return S.NSGAIIISampler(seed=seed, population_size=s["pop"])
        if k == "qmc_halton":
            return S.QMCSampler(qmc_type="halton", scramble=False, seed=seed)
        if k == "qmc_sobol":
            return S.QMCSampler(qmc_type="sobol", scramble=False, seed=seed)
        if k == "qmc_sobol_scr":
            return S.QMCSampler(qmc_type="sobol", scramble=True, seed=seed)
        if k == "brute":
            return S.BruteForceSampler(seed=seed)
        if k == "gp":
            return S.GPSampler(seed=seed, n_startup_trials=s["n_startup"], deterministic_objective=True)
        if k == "partial_fixed":
            base = make_sampler({**s, "kind": s["base"]})
            return S.PartialFixedSampler({"x2": 0.5, "n": 3}, base)
    raise ValueError(k)


PRUNER_KINDS = ["nop", "median", "percentile", "sha", "hyperband", "patient", "threshold", "wilcoxon"]


@st.composite
def pruner_spec(draw: Any, kinds: list[str] | None = None) -> dict[str, Any]:
    k = draw(st.sampled_from(kinds or PRUNER_KINDS))
    return {
        "kind": k,
        "n_startup": draw(st.integers(0, 3)),
        "n_warmup": draw(st.integers(0, 2)),
        "interval": draw(st.integers(1, 2)),
        "percentile": draw(st.sampled_from([25.0, 50.0, 75.0])),
        "eta": draw(st.integers(2, 4)),
        "min_resource": draw(st.sampled_from(["auto", 1, 2])),
        "patience": draw(st.integers(0, 2)),
        "lower": draw(st.sampled_from([None, -3.0, 0.0])),
        "upper": draw(st.sampled_from([2.0, 5.0])),
        "wrapped": draw(st.sampled_from(["median", "threshold", None])),
    }


def make_pruner(p: dict[str, Any], mirror: bool = False) -> Any:
    """mirror=True mirrors value thresholds (lower' = -upper, upper' = -lower)."""
    import optuna

    P = optuna.pruners
    k = p["kind"]
    with warnings.catch_warnings():
        warnings.simplefilter("ignore")
        if k == "nop":
            return P.NopPruner()
        if k == "median":
            return P.MedianPruner(p["n_startup"], p["n_warmup"], p["interval"])
        if k == "percentile":
            return P.PercentilePruner(p["percentile"], p["n_startup"], p["n_warmup"], p["interval"])
        if k == "sha":
            return P.SuccessiveHalvingPruner(min_resource=p["min_resource"], reduction_factor=p["eta"])
        if k == "hyperband":
            return P.HyperbandPruner(min_resource=1, max_resource=12, reduction_factor=p["eta"])
        if k == "threshold":
            lo, up = p["lower"], p["upper"]
            if mirror:
                lo, up = (None if up is None else -up), (None if lo is None else -lo)
            return P.ThresholdPruner(lower=lo, upper=up, n_warmup_steps=p["n_warmup"], interval_steps=p["interval"])
        if k == "wilcoxon":
            return P.WilcoxonPruner(p_threshold=0.2, n_startup_steps=p["n_warmup"])
        if k == "patient":
            w = None
            if p["wrapped"] is not None:
                w = make_pruner({**p, "kind": p["wrapped"]}, mirror)
            return P.PatientPruner(w, patience=p["patience"])
    raise ValueError(k)


def trial_record(t: Any) -> dict[str, Any]:
    """The fields C09/C13 compare."""
    return {
        "number": t.number,
        "state": t.state.name,
        "values": t.values,
        "params": dict(t.params),
        "iv": dict(sorted(t.intermediate_values.items())),
    }
