"""Factory for every storage configuration used by the checks.

kinds: inmemory | sqlite | cached_sqlite | journal_file | journal_file_open | journal_redis
       | grpc:<any of the above>

SQLite databases are copies of a template built once per process (about 50 ms per instance
instead of 500 ms).  gRPC uses a real in-process grpc.server on a free localhost port whose
servicer talks to a delegating storage, so the backend can be swapped per example without
restarting the server; the client object is reused with a fresh client-side cache.
"""
from __future__ import annotations

import itertools
import os
import shutil
import warnings
from concurrent.futures import ThreadPoolExecutor
from typing import Any

BASE_KINDS = ["inmemory", "sqlite", "cached_sqlite", "journal_file", "journal_file_open", "journal_redis"]
ALL_KINDS = BASE_KINDS + ["grpc:inmemory", "grpc:sqlite", "grpc:cached_sqlite", "grpc:journal_file", "grpc:journal_redis"]
STUDY_KINDS = ["inmemory", "sqlite", "journal_file", "journal_redis", "grpc:inmemory", "grpc:sqlite", "grpc:journal_file"]


class _Switch:
    """Delegating storage handed to the gRPC servicer."""

    def __init__(self) -> None:
        self.target: Any = None

    def __getattr__(self, name: str) -> Any:
        return getattr(self.target, name)


class _GrpcSlot:
    def __init__(self) -> None:
        import grpc
        from optuna.storages._grpc import servicer as grpc_servicer
        from optuna.storages._grpc.auto_generated import api_pb2_grpc
        from optuna.storages import GrpcStorageProxy

        self.switch = _Switch()
        self.server = grpc.server(ThreadPoolExecutor(max_workers=4))
        api_pb2_grpc.add_StorageServiceServicer_to_server(
            grpc_servicer.OptunaStorageProxyService(self.switch), self.server
        )
        self.port = self.server.add_insecure_port("localhost:0")
        self.server.start()
        with warnings.catch_warnings():
            warnings.simplefilter("ignore")
            self.proxy = GrpcStorageProxy(host="localhost", port=self.port)
        self.busy = False

    def fresh_proxy(self) -> Any:
        from optuna.storages._grpc.client import GrpcClientCache

        self.proxy._cache = GrpcClientCache(self.proxy._stub)
        return self.proxy

    def new_client(self) -> Any:
        """A second, independent client (own channel, own cache) of the same server."""
        from optuna.storages import GrpcStorageProxy

        with warnings.catch_warnings():
            warnings.simplefilter("ignore")
            return GrpcStorageProxy(host="localhost", port=self.port)

    def stop(self) -> None:
        self.server.stop(None)


class Factory:
    def __init__(self, tmpdir: str) -> None:
        self.tmpdir = tmpdir
        self._n = itertools.count()
        self._template: str | None = None
        self._slots: list[_GrpcSlot] = []
        self._open: list[Any] = []  # (kind, object, path)
        warnings.simplefilter("ignore")

    # ---- sqlite ---------------------------------------------------------------------
    def _sqlite_template(self) -> str:
        import optuna

        if self._template is None:
            path = os.path.join(self.tmpdir, f"template-{os.getpid()}.db")
            st = optuna.storages.RDBStorage(f"sqlite:///{path}")
            st.engine.dispose()
            self._template = path
        return self._template

    def new_sqlite_file(self) -> str:
        path = os.path.join(self.tmpdir, f"db-{os.getpid()}-{next(self._n)}.db")
        shutil.copyfile(self._sqlite_template(), path)
        return path

    def open_rdb(self, path: str, timeout: float = 300, **kw: Any) -> Any:
        import optuna

        st = optuna.storages.RDBStorage(
            f"sqlite:///{path}",
            engine_kwargs={"connect_args": {"timeout": timeout}},
            skip_compatibility_check=True,
            skip_table_creation=True,
            **kw,
        )
        self._open.append(("rdb", st, path))
        return st

    # ---- journal --------------------------------------------------------------------
    def new_journal_path(self) -> str:
        return os.path.join(self.tmpdir, f"journal-{os.getpid()}-{next(self._n)}.log")

    def open_journal_file(self, path: str, lock: str = "symlink") -> Any:
        import optuna
        from optuna.storages.journal import JournalFileBackend, JournalFileOpenLock, JournalFileSymlinkLock

        lock_obj = JournalFileSymlinkLock(path) if lock == "symlink" else JournalFileOpenLock(path)
        st = optuna.storages.JournalStorage(JournalFileBackend(path, lock_obj=lock_obj))
        self._open.append(("journal", st, path))
        return st

    def open_journal_redis(self, redis: Any = None, use_cluster: bool = False, prefix: str = "") -> Any:
        import fakeredis
        import optuna

        be = optuna.storages.journal.JournalRedisBackend("redis://localhost", use_cluster=use_cluster, prefix=prefix)
        be._redis = redis if redis is not None else fakeredis.FakeStrictRedis()
        st = optuna.storages.JournalStorage(be)
        self._open.append(("journal_redis", st, None))
        return st

    # ---- public ---------------------------------------------------------------------
    def make(self, kind: str) -> Any:
        import optuna

        if kind.startswith("grpc:"):
            inner = self.make(kind[5:])
            slot = next((s for s in self._slots if not s.busy), None)
            if slot is None:
                slot = _GrpcSlot()
                self._slots.append(slot)
            slot.busy = True
            slot.switch.target = inner
            proxy = slot.fresh_proxy()
            proxy._verif_slot = slot
            return proxy
        if kind == "inmemory":
            return optuna.storages.InMemoryStorage()
        if kind == "sqlite":
            return self.open_rdb(self.new_sqlite_file())
        if kind == "cached_sqlite":
            return optuna.storages._CachedStorage(self.open_rdb(self.new_sqlite_file()))
        if kind == "journal_file":
            return self.open_journal_file(self.new_journal_path(), "symlink")
        if kind == "journal_file_open":
            return self.open_journal_file(self.new_journal_path(), "open")
        if kind == "journal_redis":
            return self.open_journal_redis()
        raise ValueError(kind)

    def grpc_over(self, inner: Any) -> Any:
        """A proxy client (fresh cache) in front of an existing storage object."""
        slot = next((s for s in self._slots if not s.busy), None)
        if slot is None:
            slot = _GrpcSlot()
            self._slots.append(slot)
        slot.busy = True
        slot.switch.target = inner
        proxy = slot.fresh_proxy()
        proxy._verif_slot = slot
        return proxy

    def release(self) -> None:
        """End of an example: free gRPC slots, dispose engines, delete scratch files."""
        for s in self._slots:
            s.busy = False
            s.switch.target = None
        for kind, obj, path in self._open:
            try:
                if kind == "rdb":
                    obj.scoped_session.remove()
                    obj.engine.dispose()
            except Exception:
                pass
            if path:
                for p in (path, path + ".lock", path + "-journal", path + "-wal", path + "-shm"):
                    try:
                        os.unlink(p)
                    except OSError:
                        pass
        self._open = []

    def close(self) -> None:
        self.release()
        for s in self._slots:
            s.stop()
        self._slots = []


_factories: dict[str, Factory] = {}


def factory(tmpdir: str) -> Factory:
    f = _factories.get(tmpdir)
    if f is None:
        f = _factories[tmpdir] = Factory(tmpdir)
    return f
