"""ModelStorage: an executable reading of the BaseStorage contract (written from the docstrings
of optuna/storages/_base.py and the statement of C01, not from any backend).

Objects are identified by *handles*: the h-th successfully created study / trial.  The
model never sees backend ids; the harness keeps one handle->id table per backend.
"""
from __future__ import annotations

import copy
import math
from typing import Any

KEYERROR = "KeyError"
DUP = "DuplicatedStudyError"
FINISHED = "UpdateFinishedTrialError"
VALUEERROR = "ValueError"
RUNTIME = "RuntimeError"

FINISHED_STATES = ("COMPLETE", "PRUNED", "FAIL")


class Raises(Exception):
    def __init__(self, cls: str) -> None:
        super().__init__(cls)
        self.cls = cls


class MTrial:
    def __init__(self, study: int, number: int) -> None:
        self.study = study
        self.number = number
        self.state = "RUNNING"
        self.values: list[float] | None = None
        self.params: dict[str, Any] = {}  # external representation
        self.internal: dict[str, float] = {}
        self.dists: dict[str, Any] = {}  # name -> dist spec (data)
        self.user_attrs: dict[str, Any] = {}
        self.system_attrs: dict[str, Any] = {}
        self.iv: dict[int, float] = {}
        self.has_start = True
        self.has_complete = False
        self.t_start: Any = None  # exact datetime iff it came from a template
        self.t_complete: Any = None


class MStudy:
    def __init__(self, name: str | None, directions: list[str]) -> None:
        self.name = name  # None = backend-chosen unique name
        self.directions = list(directions)
        self.user_attrs: dict[str, Any] = {}
        self.system_attrs: dict[str, Any] = {}
        self.trials: list[int] = []  # trial handles in creation order; number == position
        self.alive = True
        self.param_class: dict[str, tuple[Any, str]] = {}  # name -> (compat key, origin)


def compat_key(spec: dict[str, Any]) -> Any:
    """What check_distribution_compatibility looks at: class, log flag, categorical choices."""
    k = spec["kind"]
    if k == "Categorical":
        return ("Categorical", repr(spec["choices"]))
    return (k, bool(spec.get("log")))


class ModelStorage:
    def __init__(self) -> None:
        self.studies: list[MStudy] = []
        self.trials: list[MTrial] = []

    # ---- helpers --------------------------------------------------------------------
    def _study(self, s: int) -> MStudy:
        if s < 0 or s >= len(self.studies) or not self.studies[s].alive:
            raise Raises(KEYERROR)
        return self.studies[s]

    def _trial(self, t: int) -> MTrial:
        if t < 0 or t >= len(self.trials) or not self.studies[self.trials[t].study].alive:
            raise Raises(KEYERROR)
        return self.trials[t]

    def trial_alive(self, t: int) -> bool:
        return 0 <= t < len(self.trials) and self.studies[self.trials[t].study].alive

    def _updatable(self, t: int) -> MTrial:
        tr = self._trial(t)
        if tr.state in FINISHED_STATES:
            raise Raises(FINISHED)
        return tr

    # ---- studies --------------------------------------------------------------------
    def create_new_study(self, directions: list[str], name: str | None) -> int:
        if name is not None and any(st.alive and st.name == name for st in self.studies):
            raise Raises(DUP)
        self.studies.append(MStudy(name, directions))
        return len(self.studies) - 1

    def delete_study(self, s: int) -> None:
        self._study(s).alive = False

    def set_study_attr(self, s: int, which: str, key: str, value: Any) -> None:
        st = self._study(s)
        (st.user_attrs if which == "user" else st.system_attrs)[key] = copy.deepcopy(value)

    def study_id_from_name(self, name: str) -> int:
        for i, st in enumerate(self.studies):
            if st.alive and st.name == name:
                return i
        raise Raises(KEYERROR)

    # ---- trials ---------------------------------------------------------------------
    def create_new_trial(self, s: int, template: dict[str, Any] | None) -> int:
        st = self._study(s)
        tr = MTrial(s, len(st.trials))
        if template is not None:
            tr.state = template["state"]
            tr.values = None if template["values"] is None else list(template["values"])
            tr.params = dict(template["params"])
            tr.internal = dict(template["internal"])
            tr.dists = copy.deepcopy(template["dists"])
            tr.user_attrs = copy.deepcopy(template["user_attrs"])
            tr.system_attrs = copy.deepcopy(template["system_attrs"])
            tr.iv = {int(k): v for k, v in template["iv"]}
            tr.has_start = template["t_start"] is not None
            tr.has_complete = template["t_complete"] is not None
            tr.t_start = template["t_start"]
            tr.t_complete = template["t_complete"]
            for n, d in tr.dists.items():
                st.param_class.setdefault(n, (compat_key(d), "template"))
        self.trials.append(tr)
        st.trials.append(len(self.trials) - 1)
        return len(self.trials) - 1

    def param_conflict(self, t: int, name: str, spec: dict[str, Any]) -> str | None:
        """'param' / 'template' if the name is known in the trial's study with an
        incompatible distribution (origin of the known one), else None."""
        tr = self.trials[t]
        known = self.studies[tr.study].param_class.get(name)
        if known is not None and known[0] != compat_key(spec):
            return known[1]
        return None

    def set_trial_param(self, t: int, name: str, internal: float, external: Any, spec: dict[str, Any]) -> None:
        tr = self._updatable(t)
        st = self.studies[tr.study]
        known = st.param_class.get(name)
        if known is not None and known[0] != compat_key(spec):
            raise Raises(VALUEERROR)
        st.param_class[name] = (compat_key(spec), "param")
        tr.params[name] = external
        tr.internal[name] = internal
        tr.dists[name] = copy.deepcopy(spec)

    def set_trial_state_values(self, t: int, state: str, values: list[float] | None) -> bool:
        tr = self._updatable(t)
        if state == "RUNNING" and tr.state != "WAITING":
            return False
        tr.state = state
        if values is not None:
            tr.values = list(values)
        if state == "RUNNING":
            tr.has_start = True
            tr.t_start = None
        if state in FINISHED_STATES:
            tr.has_complete = True
            tr.t_complete = None
        return True

    def set_trial_intermediate_value(self, t: int, step: int, value: float) -> None:
        self._updatable(t).iv[step] = value

    def set_trial_attr(self, t: int, which: str, key: str, value: Any) -> None:
        tr = self._updatable(t)
        (tr.user_attrs if which == "user" else tr.system_attrs)[key] = copy.deepcopy(value)

    # ---- reads ------------------------------------------------------------------------
    def best_value(self, s: int) -> Any:
        st = self._study(s)
        if len(st.directions) > 1:
            # (the documented RuntimeError; whether ValueError for "no trials" comes first is
            # not specified, so callers only probe multi-objective studies for *an* error)
            raise Raises(RUNTIME)
        vals = [self.trials[t].values[0] for t in st.trials if self.trials[t].state == "COMPLETE"]
        if not vals:
            raise Raises(VALUEERROR)
        return min(vals) if st.directions[0] == "MINIMIZE" else max(vals)

    def trial_dump(self, t: int) -> dict[str, Any]:
        tr = self.trials[t]
        return {
            "handle": t,
            "number": tr.number,
            "state": tr.state,
            "values": tr.values,
            "params": tr.params,
            "internal": tr.internal,
            "dists": tr.dists,
            "user_attrs": tr.user_attrs,
            "system_attrs": tr.system_attrs,
            "iv": dict(sorted(tr.iv.items())),
            "has_start": tr.has_start,
            "has_complete": tr.has_complete,
            "t_start": tr.t_start,
            "t_complete": tr.t_complete,
        }


def deep_eq(a: Any, b: Any) -> bool:
    """NaN-aware, type-aware (bool vs int, int vs float distinguished) deep equality."""
    if isinstance(a, float) and isinstance(b, float):
        return (math.isnan(a) and math.isnan(b)) or a == b
    if isinstance(a, bool) or isinstance(b, bool):
        return isinstance(a, bool) and isinstance(b, bool) and a == b
    if isinstance(a, dict) and isinstance(b, dict):
        return a.keys() == b.keys() and all(deep_eq(a[k], b[k]) for k in a)
    if isinstance(a, (list, tuple)) and isinstance(b, (list, tuple)):
        return len(a) == len(b) and all(deep_eq(x, y) for x, y in zip(a, b))
    if isinstance(a, (int, float)) and isinstance(b, (int, float)):
        return type(a) is type(b) and a == b
    return type(a) is type(b) and a == b


def num_eq(a: Any, b: Any) -> bool:
    """Numeric equality ignoring int/float (internal parameter representations)."""
    try:
        fa, fb = float(a), float(b)
    except (TypeError, ValueError):
        return False
    return (math.isnan(fa) and math.isnan(fb)) or fa == fb
