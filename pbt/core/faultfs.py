"""System-call layer for optuna/storages/journal/_file.py.

`_file.py` reaches the operating system only through the module-level names `os`, `time`
and the builtin `open`.  install() rebinds them to the wrappers below, which run the real
calls on a real scratch directory and additionally
  (a) are yield points of the scheduler (an interleaving of "processes" is an interleaving
      of their system calls),
  (b) deliver `write` in generated chunk sizes and read through an unbuffered handle, so a
      reader can land between two chunks of one record,
  (c) record a trace (worker, call, detail),
  (d) can kill the calling worker at its k-th call, before or after the call takes effect and,
      for a write chunk, after any number of its bytes: WorkerDied is raised and from then on
      every call of that worker raises again without effect, so cleanup code that a killed
      process would not run (finally / except BaseException) cannot touch the file system.
The worker ("process") identity is the name of the current thread.
"""
from __future__ import annotations

import builtins
import os as _os
import threading
import time as _time
from typing import Any

from core.sched import Scheduler, WorkerDied


class Ctx:
    def __init__(self, sched: Scheduler | None = None) -> None:
        self.sched = sched
        self.trace: list[tuple[str, str, Any]] = []
        self.calls: dict[str, int] = {}
        self.dead: set[str] = set()
        # crash plan: worker -> (call index (0-based, per worker), "before"|"after"|cut bytes)
        self.crash: dict[str, tuple[int, Any]] = {}
        self.chunks: dict[str, list[int]] = {}  # worker -> write chunk sizes (cycled)
        self.enabled = True
        self.max_chunks = 24

    def worker(self) -> str:
        return threading.current_thread().name

    def tick(self, tag: str, detail: Any = None) -> str | None:
        """Called at the start of every wrapped call.  Returns 'after' when the worker must die
        right after the call took effect, an int (cut) for a partial write, else None."""
        w = self.worker()
        if not self.enabled:
            return None
        if w in self.dead or (self.sched is not None and self.sched.abort):
            raise WorkerDied()
        i = self.calls.get(w, 0)
        self.calls[w] = i + 1
        self.trace.append((w, tag, detail))
        if self.sched is not None:
            self.sched.yield_point("sys:" + tag)
        plan = self.crash.get(w)
        if plan is not None and plan[0] == i:
            if plan[1] == "before":
                self.dead.add(w)
                raise WorkerDied()
            return plan[1]
        return None

    def die(self) -> None:
        self.dead.add(self.worker())
        raise WorkerDied()


class _Stat:
    def __init__(self, st: Any) -> None:
        self.st_size = st.st_size
        self.st_mtime = st.st_mtime


class FakeOS:
    """Stands for the `os` module inside _file.py."""

    def __init__(self, ctx: Ctx) -> None:
        self._c = ctx
        self.path = _os.path
        for n in ("O_CREAT", "O_EXCL", "O_WRONLY", "SEEK_END", "SEEK_SET"):
            setattr(self, n, getattr(_os, n))

    def _call(self, name: str, *a: Any) -> Any:
        how = self._c.tick("os." + name, a[0] if a else None)
        r = getattr(_os, name)(*a)
        if name in ("symlink", "open", "rename", "unlink"):
            self._c.trace.append((self._c.worker(), "ok:" + name, a[0] if a else None))
        if how == "after":
            self._c.die()
        return r

    def symlink(self, a: str, b: str) -> None:
        return self._call("symlink", a, b)

    def stat(self, p: str) -> Any:
        return _Stat(self._call("stat", p))

    def rename(self, a: str, b: str) -> None:
        return self._call("rename", a, b)

    def unlink(self, p: str) -> None:
        return self._call("unlink", p)

    def open(self, p: str, flags: int, *a: Any) -> int:
        return self._call("open", p, flags, *a)

    def close(self, fd: int) -> None:
        return self._call("close", fd)

    def fsync(self, fd: int) -> None:
        return self._call("fsync", fd)

    def __getattr__(self, name: str) -> Any:
        return getattr(_os, name)


class FakeFile:
    def __init__(self, ctx: Ctx, path: str, mode: str) -> None:
        self._c = ctx
        how = ctx.tick("open", (path, mode))
        self._f = builtins.open(path, mode, buffering=0)
        self._mode = mode
        if how == "after":
            self._f.close()
            ctx.die()

    def __enter__(self) -> "FakeFile":
        return self

    def __exit__(self, *a: Any) -> None:
        self.close()

    def close(self) -> None:
        # closing a descriptor has no effect other processes can see: not a crash/yield point,
        # and it must work for a dead worker too (the OS closes the descriptors of a dead process)
        self._f.close()

    def fileno(self) -> int:
        return self._f.fileno()

    def tell(self) -> int:
        return self._f.tell()

    def seek(self, off: int, whence: int = 0) -> int:
        self._c.tick("seek", off)
        return self._f.seek(off, whence)

    def read(self, n: int = -1) -> bytes:
        self._c.tick("read", n)
        return self._f.read(n)

    def truncate(self, size: int | None = None) -> int:
        how = self._c.tick("truncate", size)
        r = self._f.truncate(size)
        if how == "after":
            self._c.die()
        return r

    def flush(self) -> None:
        how = self._c.tick("flush")
        if how == "after":
            self._c.die()

    def __iter__(self) -> "FakeFile":
        return self

    def __next__(self) -> bytes:
        self._c.tick("readline")
        line = self._f.readline()
        if not line:
            raise StopIteration
        return line

    def write(self, data: bytes) -> int:
        w = self._c.worker()
        sizes = list(self._c.chunks.get(w) or [])
        pos, n, i = 0, len(data), 0
        while pos < n:
            k = sizes[i % len(sizes)] if sizes else n
            i += 1
            k = max(1, -(-n // self._c.max_chunks), min(k, n - pos))  # at most max_chunks chunks per write
            k = min(k, n - pos)
            how = self._c.tick("write", (pos, k, n))
            if isinstance(how, int) and not isinstance(how, bool):
                self._f.write(data[pos : pos + min(how, k)])
                self._c.die()
            self._f.write(data[pos : pos + k])
            pos += k
            if how == "after":
                self._c.die()
        return n


class FakeTime:
    def __init__(self, ctx: Ctx) -> None:
        self._c = ctx

    def monotonic(self) -> float:
        return self._c.sched.now if self._c.sched is not None else _time.monotonic()

    def sleep(self, s: float) -> None:
        if self._c.worker() in self._c.dead:
            raise WorkerDied()
        if self._c.sched is not None and self._c.sched.me() is not None and self._c.sched.active:
            self._c.sched.sleep(s)
        elif self._c.sched is not None:
            self._c.sched.now += s  # sequential phase: virtual time passes at once

    def __getattr__(self, n: str) -> Any:
        return getattr(_time, n)


_installed: list[Any] = []


def install(ctx: Ctx) -> None:
    import optuna.storages.journal._file as mod

    if not _installed:
        _installed.append((mod.os, mod.time, getattr(mod, "open", None)))
    mod.os = FakeOS(ctx)  # type: ignore[assignment]
    mod.time = FakeTime(ctx)  # type: ignore[assignment]
    mod.open = lambda path, mode="r": FakeFile(ctx, path, mode)  # type: ignore[attr-defined]


def uninstall() -> None:
    import optuna.storages.journal._file as mod

    if _installed:
        o, t, op = _installed.pop()
        mod.os, mod.time = o, t
        if op is None:
            if "open" in mod.__dict__:
                del mod.__dict__["open"]
        else:
            mod.open = op  # type: ignore[attr-defined]
