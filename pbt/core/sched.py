"""Deterministic scheduler: real threads, exactly one runs at a time, the schedule is data.

Yield points come from (a) instrumented "system calls" (core/faultfs.py), (b) `line` events of
sys.settrace in the target files of a check, (c) scheduler-aware locks, (d) time.sleep on a
virtual clock that only advances when no thread is runnable (discrete-event semantics).

A schedule is `preempt`: {step_index: k}.  At yield point number `step_index` the scheduler
switches to the k-th *other* runnable worker (in worker order, modulo their number);
at all other yield points the running worker continues.  Blocked or sleeping workers are not
runnable; when the running worker blocks, the first runnable worker in worker order runs.
"""
from __future__ import annotations

import sys
import threading
from typing import Any, Callable


class Deadlock(Exception):
    pass


class Inconclusive(Exception):
    """The harness lost control (a worker blocked outside the instrumented points)."""


class WorkerDied(BaseException):
    """Raised inside a worker to simulate the death of its process."""


_COPY_FILE = __import__("copy").__file__


class Scheduler:
    def __init__(self, preempt: dict[int, int] | None = None, trace_files: tuple[str, ...] = (), record: bool = False, max_steps: int = 200000, only_funcs: dict[str, set[str]] | None = None, copy_yields: bool = False) -> None:
        self.preempt = dict(preempt or {})
        self.targets = set(trace_files)
        self.only_funcs = only_funcs or {}  # file -> function names to trace (default: all)
        self.copy_yields = copy_yields
        self.record = record
        self.max_steps = max_steps
        self.th: dict[str, dict[str, Any]] = {}
        self.order: list[str] = []
        self.cv = threading.Condition()
        self.current: str | None = None
        self.steps = 0
        self.now = 0.0
        self.switches: list[tuple[int, str, str]] = []
        self.trace: list[tuple[int, str, str]] = []
        self.step_owner: list[str] = []  # which worker was at each yield point
        self.active = False
        self.abort = False
        self._fresh_yield = False

    # ---- called from worker threads -------------------------------------------------------
    def me(self) -> str | None:
        n = threading.current_thread().name
        return n if n in self.th else None

    def _park(self, me: str) -> None:
        self.current = None
        self.cv.notify_all()
        while self.current != me:
            if self.abort:
                raise WorkerDied()
            self.cv.wait()
        if self.abort:
            raise WorkerDied()

    def yield_point(self, tag: str = "") -> None:
        me = self.me()
        if me is not None and self.abort:
            raise WorkerDied()
        if me is None or not self.active:
            return
        with self.cv:
            self.th[me]["at"] = tag
            self.step_owner.append(me)
            if self.record:
                self.trace.append((self.steps, me, tag))
            self.steps += 1
            self._fresh_yield = True
            if self.steps > self.max_steps:
                raise Inconclusive("too many steps")
            self._park(me)

    def sleep(self, secs: float) -> None:
        me = self.me()
        if me is None or not self.active:
            return
        with self.cv:
            self.th[me]["wake"] = self.now + max(secs, 0.0)
            self._park(me)
            self.th[me]["wake"] = None

    def block_on(self, lock: "SchedLock") -> None:
        me = self.me()
        assert me is not None
        with self.cv:
            self.th[me]["blocked"] = lock
            self._park(me)
            self.th[me]["blocked"] = None

    # ---- tracing --------------------------------------------------------------------------
    def _tracer(self, frame: Any, event: str, arg: Any) -> Any:
        if event == "call" and frame.f_code.co_filename in self.targets:
            only = self.only_funcs.get(frame.f_code.co_filename)
            if only is None or frame.f_code.co_name in only:
                return self._local
        elif event == "call" and self.copy_yields and frame.f_code.co_filename == _COPY_FILE and frame.f_code.co_name in ("_deepcopy_list", "_deepcopy_dict"):
            # copy.deepcopy(<container>) / copy.copy called directly from a target file: a thread
            # can be preempted between two elements of the container being copied (a snapshot
            # taken outside the lock tears exactly there).  Nested containers are not traced.
            b = frame.f_back
            if b is not None and b.f_back is not None and b.f_code.co_filename == _COPY_FILE and b.f_back.f_code.co_filename in self.targets:
                return self._local
        return None

    def _local(self, frame: Any, event: str, arg: Any) -> Any:
        if event == "line":
            self.yield_point(f"{frame.f_code.co_name}:{frame.f_lineno}")
        return self._local

    # ---- main loop ------------------------------------------------------------------------
    def run(self, funcs: dict[str, Callable[[], Any]], timeout: float = 30.0) -> dict[str, tuple[str, Any]]:
        results: dict[str, tuple[str, Any]] = {}
        self.order = list(funcs)

        def wrap(name: str, f: Callable[[], Any]) -> Callable[[], None]:
            def body() -> None:
                with self.cv:
                    while self.current != name:
                        self.cv.wait()
                if self.targets:
                    sys.settrace(self._tracer)
                try:
                    results[name] = ("ok", f())
                except WorkerDied:
                    results[name] = ("died", None)
                except BaseException as e:  # noqa: BLE001  (reported to the caller)
                    results[name] = ("exc", e)
                finally:
                    sys.settrace(None)
                    with self.cv:
                        self.th[name]["done"] = True
                        self.current = None
                        self.cv.notify_all()

            return body

        threads = []
        for name, f in funcs.items():
            self.th[name] = {"done": False, "blocked": None, "wake": None, "at": ""}
            t = threading.Thread(target=wrap(name, f), name=name, daemon=True)
            threads.append(t)
        self.active = True
        for t in threads:
            t.start()
        last: str | None = None
        try:
            with self.cv:
                while True:
                    live = [n for n in self.order if not self.th[n]["done"]]
                    if not live:
                        break
                    runnable = [n for n in live if self.th[n]["wake"] is None and (self.th[n]["blocked"] is None or not self.th[n]["blocked"].held_by_other(n))]
                    if not runnable:
                        sleepers = [n for n in live if self.th[n]["wake"] is not None]
                        if not sleepers:
                            raise Deadlock({n: (self.th[n]["at"], "blocked" if self.th[n]["blocked"] else "") for n in live})
                        n0 = min(sleepers, key=lambda n: (self.th[n]["wake"], self.order.index(n)))
                        self.now = max(self.now, self.th[n0]["wake"])
                        self.th[n0]["wake"] = None
                        runnable = [n0]
                    pick = last if last in runnable else runnable[0]
                    step_here = self.steps - 1  # index of the yield point just reached
                    fresh, self._fresh_yield = self._fresh_yield, False
                    if fresh and step_here in self.preempt and last in runnable:
                        others = [r for r in runnable if r != last]
                        if others:
                            pick = others[self.preempt.pop(step_here) % len(others)]
                            self.switches.append((step_here, last or "", pick))
                    last = pick
                    self.current = pick
                    self.cv.notify_all()
                    while self.current is not None:
                        if not self.cv.wait(timeout=timeout):
                            raise Inconclusive(f"worker {pick} did not come back to a yield point within {timeout}s (at {self.th[pick]['at']})")
        except BaseException:
            # the run is abandoned (deadlock, lost control, watchdog): the workers must not go on
            # running unscheduled -- they die at their next instrumented point
            with self.cv:
                self.abort = True
                self.cv.notify_all()
            for t in threads:
                t.join(timeout=2)
            raise
        finally:
            self.active = False
        for t in threads:
            t.join(timeout=5)
        return results


class SchedLock:
    """Drop-in for threading.Lock / RLock whose blocking is visible to the scheduler."""

    def __init__(self, sched: Scheduler, reentrant: bool = False) -> None:
        self.s = sched
        self.owner: str | None = None
        self.count = 0
        self.re = reentrant
        self._real = threading.RLock()

    def held_by_other(self, n: str) -> bool:
        return self.owner is not None and self.owner != n

    def acquire(self, blocking: bool = True, timeout: float = -1) -> bool:
        me = self.s.me()
        if me is None or not self.s.active:
            # outside a scheduled run (set-up / checking phase): behave like a real lock
            self._real.acquire()
            return True
        self.s.yield_point("lock.acquire")
        while self.owner is not None and not (self.owner == me and self.re):
            if self.owner == me:
                raise RuntimeError("self deadlock on a non-reentrant lock")
            if not blocking:
                return False
            self.s.block_on(self)
        self.owner = me
        self.count += 1
        return True

    def release(self) -> None:
        me = self.s.me()
        if me is None or not self.s.active:
            self._real.release()
            return
        self.count -= 1
        if self.count == 0:
            self.owner = None
        self.s.yield_point("lock.release")

    def __enter__(self) -> "SchedLock":
        self.acquire()
        return self

    def __exit__(self, *a: Any) -> None:
        self.release()

    def locked(self) -> bool:
        return self.owner is not None


LOCK_T = type(threading.Lock())
RLOCK_T = type(threading.RLock())


def replace_locks(obj: Any, sched: Scheduler, seen: set[int] | None = None, depth: int = 0) -> int:
    """Replaces every threading.Lock/RLock attribute reachable from an optuna object."""
    seen = seen if seen is not None else set()
    if id(obj) in seen or depth > 4 or not hasattr(obj, "__dict__"):
        return 0
    seen.add(id(obj))
    n = 0
    for k, v in list(vars(obj).items()):
        if isinstance(v, LOCK_T):
            setattr(obj, k, SchedLock(sched))
            n += 1
        elif isinstance(v, RLOCK_T):
            setattr(obj, k, SchedLock(sched, True))
            n += 1
        elif isinstance(v, SchedLock):
            v.s = sched
            v.owner, v.count = None, 0
            n += 1
        elif type(v).__module__.startswith("optuna"):
            n += replace_locks(v, sched, seen, depth + 1)
    return n
