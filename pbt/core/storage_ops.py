"""Shared machinery for storage-level histories (used by C01, C03, C05, C06, C08):
op strategies with symbolic handles, template construction, the handle-table wrapper of a
backend, comparison of a backend's readable state with ModelStorage, and `Plan`: how one
generated op is applied to the model and to a backend, or skipped for soundness."""
from __future__ import annotations

import copy
import datetime
import math
import warnings
from typing import Any

from hypothesis import strategies as st

from core import gen
from core.model import DUP, FINISHED, KEYERROR, RUNTIME, VALUEERROR, ModelStorage, Raises, deep_eq, num_eq
from core.runner import Ctx, Violation

# parameter families: a name keeps its class / log flag / choices, variants differ in range
FAMILIES: dict[str, list[dict[str, Any]]] = {
    "x": [
        {"kind": "Float", "low": 0.0, "high": 1.0, "log": False, "step": None},
        {"kind": "Float", "low": -5.0, "high": 5.0, "log": False, "step": None},
        {"kind": "Float", "low": -1.0, "high": 1.0, "log": False, "step": 0.25},
    ],
    "lr": [
        {"kind": "Float", "low": 1e-3, "high": 10.0, "log": True, "step": None},
        {"kind": "Float", "low": 1e-5, "high": 1.0, "log": True, "step": None},
    ],
    "n": [
        {"kind": "Int", "low": -3, "high": 7, "log": False, "step": 1},
        {"kind": "Int", "low": 0, "high": 9, "log": False, "step": 3},
    ],
    "k": [{"kind": "Int", "low": 1, "high": 100, "log": True, "step": 1}],
    "c": [{"kind": "Categorical", "choices": [None, True, 2, 0.5, "x"]}],
    "opt": [{"kind": "Categorical", "choices": ["adam", "sgd"]}],
}
# a distribution of another class for the same name (the incompatible write)
OTHER: dict[str, dict[str, Any]] = {
    "x": {"kind": "Categorical", "choices": ["a", "b"]},
    "lr": {"kind": "Float", "low": 1e-3, "high": 10.0, "log": False, "step": None},
    "n": {"kind": "Float", "low": 0.0, "high": 1.0, "log": False, "step": None},
    "k": {"kind": "Int", "low": 1, "high": 100, "log": False, "step": 1},
    "c": {"kind": "Categorical", "choices": [None, True, 2, 0.5]},
    "opt": {"kind": "Int", "low": 0, "high": 1, "log": False, "step": 1},
}
PNAMES = sorted(FAMILIES)

text = st.text(max_size=4, alphabet=st.characters(blacklist_categories=["Cs"]))
json_leaf = st.one_of(
    st.none(),
    st.booleans(),
    st.integers(-(2**40), 2**40),
    st.floats(allow_nan=True),
    st.sampled_from([float("nan"), float("inf"), float("-inf"), -0.0, 1e300]),
    text,
)
json_val = st.recursive(
    json_leaf,
    lambda c: st.one_of(st.lists(c, max_size=3), st.dictionaries(st.text(max_size=3, alphabet="abé"), c, max_size=3)),
    max_leaves=5,
)
akey = st.sampled_from(["a", "b", "k1", "é", "constraints", ""])
fval = st.one_of(st.floats(allow_nan=False), st.sampled_from([math.inf, -math.inf, 0.0, -0.0, 1.0, 1e-320]))
ival = st.one_of(st.floats(allow_nan=True), st.sampled_from([math.inf, -math.inf, math.nan]))
STATES = ["RUNNING", "WAITING", "COMPLETE", "PRUNED", "FAIL"]
NAMES = ["s0", "s0", "s1", "é name"]


def _dt(us: int) -> list[int]:
    return [us]


@st.composite
def param_pick(draw: Any) -> list[Any]:
    n = draw(st.sampled_from(["x", "x", "x", "c", "c", "n", "lr", "k", "opt"]))
    return [n, draw(st.integers(0, len(FAMILIES[n]) - 1)), draw(st.floats(0, 1))]


@st.composite
def template(draw: Any) -> dict[str, Any]:
    state = draw(st.sampled_from(STATES))
    return {
        "state": state,
        "with_values": draw(st.booleans()),
        "values": draw(st.lists(fval, min_size=3, max_size=3)),
        "params": draw(st.lists(param_pick(), max_size=2, unique_by=lambda p: p[0])),
        "user_attrs": draw(st.dictionaries(akey, json_val, max_size=2)),
        "system_attrs": draw(st.dictionaries(akey, json_val, max_size=2)),
        "iv": draw(st.lists(st.tuples(st.integers(0, 6), ival).map(list), max_size=3, unique_by=lambda p: p[0])),
        "start_us": draw(st.integers(10**9, 4 * 10**15)),
        "dur_us": draw(st.integers(0, 10**12)),
        "waiting_has_start": draw(st.booleans()),
    }


@st.composite
def op(draw: Any) -> list[Any]:
    kind = draw(
        st.sampled_from(
            ["create_study", "create_study", "delete_study", "study_attr", "create_trial", "create_trial", "create_trial", "create_trial_tmpl", "create_trial_tmpl",
             "param", "param", "param", "param", "state", "state", "state", "state", "iv", "iv", "tattr", "tattr"]
        )
    )
    # handle index (resolved modulo the number of objects created so far); >= 1000 = an id
    # that was never allocated
    h = draw(st.integers(0, 40)) if draw(st.integers(0, 13)) else draw(st.integers(1000, 1006))
    if kind == "create_study":
        return [kind, draw(st.one_of(st.none(), st.sampled_from(NAMES))), draw(st.lists(st.sampled_from(["MINIMIZE", "MAXIMIZE"]), min_size=1, max_size=3))]
    if kind == "delete_study":
        return [kind, h]
    if kind == "study_attr":
        return [kind, h, draw(st.sampled_from(["user", "system"])), draw(akey), draw(json_val)]
    if kind == "create_trial":
        return [kind, h]
    if kind == "create_trial_tmpl":
        return [kind, h, draw(template())]
    if kind == "param":
        return [kind, h, draw(param_pick()), draw(st.integers(0, 2)) == 0]
    if kind == "state":
        return [kind, h, draw(st.sampled_from(["RUNNING", "RUNNING", "COMPLETE", "COMPLETE", "PRUNED", "FAIL"])), draw(st.booleans()), draw(st.lists(fval, min_size=3, max_size=3))]
    if kind == "iv":
        return [kind, h, draw(st.integers(0, 6)), draw(ival)]
    if kind == "tattr":
        return [kind, h, draw(st.sampled_from(["user", "system"])), draw(akey), draw(json_val)]
    if kind == "get":
        return [kind, h, draw(st.integers(0, 11))]
    return ["probe", h]


@st.composite
def case_history(draw: Any) -> dict[str, Any]:
    n = draw(st.integers(5, 60))
    ops = draw(st.lists(op(), min_size=n, max_size=n))
    # make sure something exists early
    pre = [["create_study", draw(st.one_of(st.none(), st.sampled_from(NAMES))), draw(st.lists(st.sampled_from(["MINIMIZE", "MAXIMIZE"]), min_size=1, max_size=2))]]
    g0 = draw(st.integers(0, 4))
    return {"ops": pre + ops, "dump_at": draw(st.lists(st.integers(0, 60), max_size=2)), "grpc": [g0, g0 + draw(st.integers(1, 4))]}


# ------------------------------------------------------------------------------------------
# turning specs into optuna objects
# ------------------------------------------------------------------------------------------


def internal_value(spec: dict[str, Any], frac: float) -> tuple[float, Any]:
    d = gen.make_dist(spec)
    if spec["kind"] == "Categorical":
        i = min(int(frac * len(spec["choices"])), len(spec["choices"]) - 1)
        return float(i), spec["choices"][i]
    if spec["kind"] == "Int":
        n = (d.high - d.low) // d.step
        v = d.low + min(int(frac * (n + 1)), n) * d.step
        return float(v), int(v)
    if spec["step"] is not None:
        n = int(round((d.high - d.low) / d.step))
        v = d.low + min(int(frac * (n + 1)), n) * d.step
        return float(v), float(v)
    if spec["log"]:
        v = math.exp(math.log(d.low) + frac * (math.log(d.high) - math.log(d.low)))
    else:
        v = d.low + frac * (d.high - d.low)
    v = min(max(v, d.low), d.high)
    return float(v), float(v)


def build_template(t: dict[str, Any], n_dir: int) -> tuple[dict[str, Any], Any]:
    """(model template, FrozenTrial)"""
    import optuna
    from optuna.trial import FrozenTrial, TrialState

    state = t["state"]
    values = None
    if state == "COMPLETE" or (state in ("PRUNED",) and t["with_values"]):
        values = list(t["values"][:n_dir])
    params, internal, dists, odists = {}, {}, {}, {}
    for name, var, frac in t["params"]:
        spec = FAMILIES[name][var]
        iv_, ext = internal_value(spec, frac)
        params[name], internal[name], dists[name] = ext, iv_, spec
        odists[name] = gen.make_dist(spec)
    epoch = datetime.datetime(1971, 1, 1)
    start = epoch + datetime.timedelta(microseconds=t["start_us"])
    if state == "WAITING" and not t["waiting_has_start"]:
        start = None
    complete = None
    if state in ("COMPLETE", "PRUNED", "FAIL"):
        complete = (start or epoch) + datetime.timedelta(microseconds=t["dur_us"])
    model_t = {
        "state": state,
        "values": values,
        "params": params,
        "internal": internal,
        "dists": dists,
        "user_attrs": t["user_attrs"],
        "system_attrs": t["system_attrs"],
        "iv": t["iv"],
        "t_start": start,
        "t_complete": complete,
    }
    with warnings.catch_warnings():
        warnings.simplefilter("ignore")
        ft = FrozenTrial(
            number=-1,
            trial_id=-1,
            state=getattr(TrialState, state),
            value=None,
            values=values,
            datetime_start=start,
            datetime_complete=complete,
            params=dict(params),
            distributions=odists,
            user_attrs=copy.deepcopy(t["user_attrs"]),
            system_attrs=copy.deepcopy(t["system_attrs"]),
            intermediate_values={int(k): v for k, v in t["iv"]},
        )
    ft._validate()
    return model_t, ft


def _create_trial(b: Any, sid: int, ft: Any) -> int:
    """create_new_trial with the caller's own template object, which the caller goes on using and
    changing after the call (one template re-used for several imports): what was stored is the
    template as it was at the call."""
    if ft is None:
        return b.s.create_new_trial(sid, None)
    tpl = copy.deepcopy(ft)
    r = b.s.create_new_trial(sid, tpl)
    tpl.user_attrs["changed-by-the-caller-after-the-call"] = True
    tpl.system_attrs["changed-by-the-caller-after-the-call"] = True
    tpl.intermediate_values[987] = 6.5
    for k in list(tpl.params):
        tpl.params[k] = "changed-by-the-caller-after-the-call"
    if tpl._values:
        tpl._values[0] = 12345.0
    return r


def dist_to_spec(d: Any) -> dict[str, Any]:
    import optuna.distributions as D

    if isinstance(d, D.CategoricalDistribution):
        return {"kind": "Categorical", "choices": list(d.choices)}
    if isinstance(d, D.IntDistribution):
        return {"kind": "Int", "low": d.low, "high": d.high, "log": d.log, "step": d.step}
    return {"kind": "Float", "low": d.low, "high": d.high, "log": d.log, "step": d.step}


EXC = {
    "KeyError": KEYERROR,
    "DuplicatedStudyError": DUP,
    "UpdateFinishedTrialError": FINISHED,
    "ValueError": VALUEERROR,
    "RuntimeError": RUNTIME,
}


class Backend:
    """One storage configuration + its handle tables."""

    def __init__(self, kind: str, storage: Any) -> None:
        self.kind = kind
        self.s = storage
        self.sid: list[int] = []
        self.tid: list[int] = []

    def call(self, f: Any) -> tuple[str, Any]:
        import optuna

        try:
            return ("ok", f())
        except (KeyError, optuna.exceptions.DuplicatedStudyError, optuna.exceptions.UpdateFinishedTrialError, ValueError, RuntimeError) as e:
            # most specific class name first (DuplicatedStudyError etc. derive from OptunaError)
            for name in ("DuplicatedStudyError", "UpdateFinishedTrialError", "KeyError", "ValueError", "RuntimeError"):
                if type(e).__name__ == name or any(c.__name__ == name for c in type(e).__mro__):
                    return ("exc", EXC[name])
            return ("exc", type(e).__name__)
        except Exception as e:  # an undocumented error class is itself a finding
            return ("exc", f"{type(e).__name__}: {str(e)[:200]}")


def id_shadowed(ids: list[int], h: int, alive: list[bool]) -> bool:
    """The backend re-used the id of dead handle h for a live object (SQLite does)."""
    return any(ids[j] == ids[h] and j != h and alive[j] for j in range(len(ids)))


def norm_trial(t: Any, handle_of: dict[int, int]) -> dict[str, Any]:
    return {
        "handle": handle_of.get(t._trial_id, ("unknown id", t._trial_id)),
        "number": t.number,
        "state": t.state.name,
        "values": t.values,
        "params": t.params,
        "dists": {n: dist_to_spec(d) for n, d in t.distributions.items()},
        "user_attrs": t.user_attrs,
        "system_attrs": t.system_attrs,
        "iv": dict(sorted(t.intermediate_values.items())),
        "has_start": t.datetime_start is not None,
        "has_complete": t.datetime_complete is not None,
    }


def model_norm(m: ModelStorage, t: int) -> dict[str, Any]:
    d = m.trial_dump(t)
    return {k: d[k] for k in ("handle", "number", "state", "values", "params", "dists", "user_attrs", "system_attrs", "iv", "has_start", "has_complete")}


def compare_trial(got: Any, m: ModelStorage, t: int, b: Backend, handle_of: dict[int, int], where: str, case: Any) -> None:
    g = norm_trial(got, handle_of)
    e = model_norm(m, t)
    for k in e:
        if not deep_eq(g[k], e[k]):
            raise Violation(
                f"state-differs:{k}",
                f"{b.kind} {where}: trial handle {t} field {k}: backend {g[k]!r}, contract {e[k]!r}",
                case,
            )
    mt = m.trials[t]
    if mt.t_start is not None and got.datetime_start != mt.t_start:
        raise Violation("template-datetime_start-not-stored-exactly", f"{b.kind}: {got.datetime_start!r} vs {mt.t_start!r}", case)
    if mt.t_complete is not None and got.datetime_complete != mt.t_complete:
        raise Violation("template-datetime_complete-not-stored-exactly", f"{b.kind}: {got.datetime_complete!r} vs {mt.t_complete!r}", case)


def full_dump_check(m: ModelStorage, b: Backend, case: Any, where: str) -> int:
    """Compares the whole readable state of backend b with the model. Returns #comparisons."""
    from optuna.trial import TrialState

    s = b.s
    n = 0
    s_alive = [st.alive for st in m.studies]
    t_alive = [m.trial_alive(t) for t in range(len(m.trials))]
    handle_of = {b.tid[t]: t for t in range(len(m.trials)) if t_alive[t]}
    shandle_of = {b.sid[i]: i for i in range(len(m.studies)) if s_alive[i]}
    if len(handle_of) != sum(t_alive) or len(shandle_of) != sum(s_alive):
        raise Violation("ids-of-live-objects-not-distinct", f"{b.kind} {where}: study ids {b.sid} alive {s_alive}; trial ids {b.tid} alive {t_alive}", case)
    # all studies
    fs = s.get_all_studies()
    ids = [x._study_id for x in fs]
    if ids != sorted(ids):
        raise Violation("get_all_studies-not-sorted", f"{b.kind}: {ids}", case)
    got = sorted(
        [(shandle_of.get(x._study_id, ("unknown", x._study_id)), x.study_name, [d.name for d in x.directions], x.user_attrs, x.system_attrs) for x in fs],
        key=lambda r: repr(r[0]),
    )
    exp = []
    for i, st_ in enumerate(m.studies):
        if st_.alive:
            exp.append((i, st_.name, st_.directions, st_.user_attrs, st_.system_attrs))
    exp.sort(key=lambda r: repr(r[0]))
    if len(got) != len(exp):
        raise Violation("state-differs:studies", f"{b.kind} {where}: get_all_studies {[(g[0], g[1]) for g in got]} vs contract {[(e[0], e[1]) for e in exp]}", case)
    for g, e in zip(got, exp):
        if g[0] != e[0] or (e[1] is not None and g[1] != e[1]) or (e[1] is None and not g[1]) or not deep_eq(list(g[2:]), list(e[2:])):
            raise Violation("state-differs:studies", f"{b.kind} {where}: get_all_studies entry {g!r} vs contract {e!r}", case)
    n += 1
    for i, st_ in enumerate(m.studies):
        sid = b.sid[i]
        if not st_.alive:
            if id_shadowed(b.sid, i, s_alive):
                continue
            for fn in ("get_all_trials", "get_study_user_attrs", "get_study_system_attrs", "get_study_name_from_id", "get_study_directions", "get_n_trials"):
                r = b.call(lambda fn=fn: getattr(s, fn)(sid))
                n += 1
                if r != ("exc", KEYERROR):
                    raise Violation("deleted-study-still-readable", f"{b.kind} {where}: {fn}(deleted study handle {i}) -> {r!r}, contract KeyError", case)
            for num in range(len(st_.trials) + 1):
                r = b.call(lambda num=num: s.get_trial_id_from_study_id_trial_number(sid, num))
                n += 1
                if r != ("exc", KEYERROR):
                    raise Violation("deleted-study-still-readable", f"{b.kind} {where}: get_trial_id_from_study_id_trial_number(deleted study handle {i}, {num}) -> {r!r}, contract KeyError", case)
            continue
        mt = [m.trials[t] for t in st_.trials]
        for deep, states in ((True, None), (False, ("COMPLETE",)), (False, ("RUNNING", "WAITING")), (True, ("COMPLETE", "PRUNED", "FAIL")), (False, None)):
            if True:
                kw = {} if states is None else {"states": tuple(getattr(TrialState, x) for x in states)}
                got_t = s.get_all_trials(sid, deepcopy=deep, **kw)
                exp_t = [t for t in st_.trials if states is None or m.trials[t].state in states]
                n += 1
                if [handle_of.get(x._trial_id) for x in got_t] != exp_t:
                    raise Violation(
                        "state-differs:get_all_trials",
                        f"{b.kind} {where}: get_all_trials(study {i}, deepcopy={deep}, states={states}) -> handles {[handle_of.get(x._trial_id, x._trial_id) for x in got_t]} (numbers {[x.number for x in got_t]}), contract {exp_t}",
                        case,
                    )
                for x, t in zip(got_t, exp_t):
                    compare_trial(x, m, t, b, handle_of, f"{where} get_all_trials(deepcopy={deep},states={states})", case)
        nums = [x.number for x in s.get_all_trials(sid, deepcopy=False)]
        if nums != list(range(len(nums))):
            raise Violation("trial-numbers-not-sequential", f"{b.kind} {where}: study {i}: {nums}", case)
        for stt in (None, "RUNNING", ("COMPLETE", "FAIL")):
            arg = None if stt is None else (getattr(TrialState, stt) if isinstance(stt, str) else tuple(getattr(TrialState, x) for x in stt))
            got_n = s.get_n_trials(sid, arg)
            exp_n = sum(1 for x in mt if stt is None or x.state == stt or (isinstance(stt, tuple) and x.state in stt))
            n += 1
            if got_n != exp_n:
                raise Violation("state-differs:get_n_trials", f"{b.kind} {where}: get_n_trials(study {i}, {stt}) -> {got_n}, contract {exp_n}", case)
        a = (s.get_study_user_attrs(sid), s.get_study_system_attrs(sid), [d.name for d in s.get_study_directions(sid)])
        if not deep_eq(list(a), [st_.user_attrs, st_.system_attrs, st_.directions]):
            raise Violation("state-differs:study-attrs", f"{b.kind} {where}: study {i}: {a!r} vs contract {(st_.user_attrs, st_.system_attrs, st_.directions)!r}", case)
        # a trial number the study has not reached yet (the study may have inherited the id of a
        # deleted one that had more trials)
        for num in (len(mt), len(mt) + 1, len(mt) + 3):
            r = b.call(lambda num=num: s.get_trial_id_from_study_id_trial_number(sid, num))
            n += 1
            if r != ("exc", KEYERROR):
                raise Violation("unknown-trial-number-resolved", f"{b.kind} {where}: get_trial_id_from_study_id_trial_number(study {i} with {len(mt)} trials, {num}) -> {r!r}, contract KeyError", case)
        name = s.get_study_name_from_id(sid)
        if (st_.name is not None and name != st_.name) or s.get_study_id_from_name(name) != sid:
            raise Violation("state-differs:study-name", f"{b.kind} {where}: study {i}: name {name!r} vs {st_.name!r}", case)
        n += 2
        # best trial
        r = b.call(lambda: s.get_best_trial(sid))
        try:
            ev = ("ok", m.best_value(i))
        except Raises as e:
            ev = ("exc", e.cls)
        if len(st_.directions) > 1:
            if r[0] != "exc" or r[1] not in (RUNTIME, VALUEERROR):
                raise Violation("get_best_trial-multiobjective", f"{b.kind} {where}: {r!r}", case)
        elif ev[0] == "exc":
            if r != ev:
                raise Violation("get_best_trial-error-class", f"{b.kind} {where}: study {i}: {r!r}, contract {ev!r}", case)
        else:
            if r[0] != "ok" or r[1].state.name != "COMPLETE" or not deep_eq(float(r[1].value), float(ev[1])):
                raise Violation("get_best_trial-wrong", f"{b.kind} {where}: study {i}: {r!r}, contract value {ev[1]!r}", case)
            compare_trial(r[1], m, handle_of[r[1]._trial_id], b, handle_of, where + " get_best_trial", case)
        n += 1
    for t in range(len(m.trials)):
        tid = b.tid[t]
        if not t_alive[t]:
            if id_shadowed(b.tid, t, t_alive):
                continue
            for fn in ("get_trial", "get_trial_number_from_id", "get_trial_params", "get_trial_user_attrs", "get_trial_system_attrs"):
                r = b.call(lambda fn=fn: getattr(s, fn)(tid))
                n += 1
                if r != ("exc", KEYERROR):
                    raise Violation("trial-of-deleted-study-still-readable", f"{b.kind} {where}: {fn}(trial handle {t} of a deleted study) -> {str(r)[:200]}, contract KeyError", case)
            continue
        mt_ = m.trials[t]
        x = s.get_trial(tid)
        compare_trial(x, m, t, b, handle_of, where + " get_trial", case)
        if s.get_trial_number_from_id(tid) != mt_.number:
            raise Violation("state-differs:number", f"{b.kind} {where}: trial {t}", case)
        back = s.get_trial_id_from_study_id_trial_number(b.sid[mt_.study], mt_.number)
        if back != tid:
            raise Violation("state-differs:id-from-number", f"{b.kind} {where}: trial {t}: {back} vs {tid}", case)
        if not deep_eq(s.get_trial_params(tid), mt_.params) or not deep_eq(s.get_trial_user_attrs(tid), mt_.user_attrs) or not deep_eq(s.get_trial_system_attrs(tid), mt_.system_attrs):
            raise Violation("state-differs:trial-getters", f"{b.kind} {where}: trial {t}", case)
        for pn, iv_ in mt_.internal.items():
            gv = s.get_trial_param(tid, pn)
            if not num_eq(gv, iv_):
                raise Violation("state-differs:internal-param", f"{b.kind} {where}: trial {t} param {pn}: {gv!r} vs {iv_!r}", case)
        r = b.call(lambda: s.get_trial_param(tid, "no-such-param"))
        if r != ("exc", KEYERROR):
            raise Violation("get_trial_param-unknown-name", f"{b.kind} {where}: {r!r}", case)
        n += 6
    # never allocated ids
    big = max(b.tid + b.sid + [0]) + 1000
    for fn, arg in (("get_trial", big), ("get_all_trials", big), ("get_study_name_from_id", big), ("get_trial_number_from_id", big)):
        r = b.call(lambda fn=fn, arg=arg: getattr(s, fn)(arg))
        n += 1
        if r != ("exc", KEYERROR):
            raise Violation("unknown-id-readable", f"{b.kind} {where}: {fn}({arg}) -> {str(r)[:200]}", case)
    r = b.call(lambda: s.get_study_id_from_name("no such study name"))
    if r != ("exc", KEYERROR):
        raise Violation("unknown-name-readable", f"{b.kind} {where}: {r!r}", case)
    return n




# ------------------------------------------------------------------------------------------
# one generated op -> how to apply it to the model and to a backend
# ------------------------------------------------------------------------------------------


class Plan:
    def __init__(self, name: str, mf: Any, bf: Any, creates: str | None = None, target: tuple[str, int] | None = None, classes: list[str] | None = None) -> None:
        self.name = name
        self.mf = mf  # () -> value, raises model.Raises
        self.bf = bf  # (Backend) -> value
        self.creates = creates  # 'study' | 'trial' | None: the return value is a new id
        self.target = target
        self.classes = classes or []


UNKNOWN_ID = 10**6


def _sid(b: "Backend", h: int) -> int:
    return b.sid[h] if h < len(b.sid) else UNKNOWN_ID + h


def _tid(b: "Backend", h: int) -> int:
    return b.tid[h] if h < len(b.tid) else UNKNOWN_ID + h


def plan(m: ModelStorage, o: list[Any], ctx: Ctx | None) -> Plan | None:
    """Turns a generated op into a Plan, or None when the op is not applicable / excluded
    because the contract is silent (counted through ctx.sound_skip)."""
    from optuna.study import StudyDirection
    from optuna.trial import TrialState

    def skip(why: str) -> None:
        if ctx is not None:
            ctx.sound_skip(why)

    kind = o[0]
    ns, nt = len(m.studies), len(m.trials)
    classes: list[str] = []
    if kind == "create_study":
        name, dirs = o[1], o[2]
        odirs = [getattr(StudyDirection, d) for d in dirs]
        if name is not None and any(s.name == name and not s.alive for s in m.studies):
            classes.append("recreate-deleted-name")
        return Plan("create_new_study", lambda: m.create_new_study(dirs, name), lambda b: b.s.create_new_study(odirs, name), creates="study", classes=classes)
    if kind in ("delete_study", "study_attr", "create_trial", "create_trial_tmpl"):
        if ns == 0:
            return None
        # o[1] beyond the range (only generated with the 'unknown' flavour) = never allocated id
        h = o[1] % ns if o[1] < 1000 else ns + o[1] % 7
        if kind == "delete_study":
            return Plan("delete_study", lambda: m.delete_study(h), lambda b: b.s.delete_study(_sid(b, h)), target=("s", h))
        if kind == "study_attr":
            fn = "set_study_user_attr" if o[2] == "user" else "set_study_system_attr"
            return Plan(fn, lambda: m.set_study_attr(h, o[2], o[3], o[4]), lambda b: getattr(b.s, fn)(_sid(b, h), o[3], copy.deepcopy(o[4])), target=("s", h))
        mtpl, ft = None, None
        if kind == "create_trial_tmpl":
            nd = len(m.studies[h].directions) if h < ns else 1
            mtpl, ft = build_template(o[2], nd)
            if all(o[2][k] for k in ("params", "user_attrs", "system_attrs", "iv")):
                classes.append("template-all-fields")
            classes.append("template-" + o[2]["state"])
        return Plan(
            "create_new_trial" + ("(template)" if ft is not None else ""),
            lambda: m.create_new_trial(h, mtpl),
            lambda b: _create_trial(b, _sid(b, h), ft),
            creates="trial",
            target=("s", h),
            classes=classes,
        )
    if kind not in ("param", "state", "iv", "tattr") or nt == 0:
        return None
    h = o[1] % nt if o[1] < 1000 else nt + o[1] % 7
    known = h < nt
    alive = known and m.trial_alive(h)
    mt = m.trials[h] if known else None
    if alive and mt.state == "WAITING" and kind != "state":
        skip("write to a WAITING trial other than its state")
        return None
    if alive and mt.state in ("COMPLETE", "PRUNED", "FAIL"):
        classes.append("write-after-finish:" + kind)
    if not known:
        classes.append("write-to-unknown-id")
    if kind == "param":
        name, var, frac = o[2]
        spec = OTHER[name] if o[3] else FAMILIES[name][var]
        if alive and name in mt.params:
            skip("set_trial_param for a name the trial already has")
            return None
        conflict = m.param_conflict(h, name, spec) if known else None
        if o[3] and conflict is None and alive:
            # aim the incompatible write at a name the study already knows through
            # set_trial_param (a function of the model state only, hence deterministic)
            for cand, (_, origin) in sorted(m.studies[mt.study].param_class.items()):
                if origin == "param" and cand not in mt.params and cand in OTHER:
                    name, spec = cand, OTHER[cand]
                    conflict = m.param_conflict(h, name, spec)
                    break
        if o[3] and conflict is None:
            # nothing in the study to be incompatible with yet: write the name with its ordinary
            # distribution instead, so that later incompatible writes have a target
            spec = FAMILIES[name][var]
            conflict = m.param_conflict(h, name, spec) if known else None
            classes.append("incompatible-write-turned-compatible")
        if conflict == "template":
            skip("distribution incompatible with one introduced only by a template")
            return None
        if conflict is not None and (not alive or mt.state in ("COMPLETE", "PRUNED", "FAIL")):
            skip("incompatible distribution on a finished/deleted trial (order of errors unspecified)")
            return None
        if conflict is not None:
            classes.append("incompatible-distribution")
        iv_, ext = internal_value(spec, frac)
        dist = gen.make_dist(spec)
        return Plan("set_trial_param", lambda: m.set_trial_param(h, name, iv_, ext, spec), lambda b: b.s.set_trial_param(_tid(b, h), name, iv_, dist), target=("t", h), classes=classes)
    if kind == "state":
        new = o[2]
        nd = len(m.studies[mt.study].directions) if known else 1
        vals = None
        if new == "COMPLETE" or (new == "PRUNED" and o[3]):
            vals = list(o[4][:nd])
        if alive and mt.state == "RUNNING" and new == "RUNNING":
            classes.append("second-claim")
        if alive and mt.state == "WAITING" and new == "RUNNING":
            classes.append("claim")
        ostate = getattr(TrialState, new)
        return Plan(
            "set_trial_state_values",
            lambda: m.set_trial_state_values(h, new, vals),
            lambda b: b.s.set_trial_state_values(_tid(b, h), ostate, None if vals is None else list(vals)),
            target=("t", h),
            classes=classes,
        )
    if kind == "iv":
        return Plan("set_trial_intermediate_value", lambda: m.set_trial_intermediate_value(h, o[2], o[3]), lambda b: b.s.set_trial_intermediate_value(_tid(b, h), o[2], o[3]), target=("t", h), classes=classes)
    fn = "set_trial_user_attr" if o[2] == "user" else "set_trial_system_attr"
    return Plan(fn, lambda: m.set_trial_attr(h, o[2], o[3], o[4]), lambda b: getattr(b.s, fn)(_tid(b, h), o[3], copy.deepcopy(o[4])), target=("t", h), classes=classes)


def model_outcome(p: Plan) -> tuple[str, Any]:
    try:
        return ("ok", p.mf())
    except Raises as e:
        return ("exc", e.cls)
