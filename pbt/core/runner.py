"""Runner shared by all property checks.

A property module (pbt/props/cNN_*.py) exposes

    ID          "C11"
    LEVEL       "exploration" | "fault_enumeration"
    RULE        text: how cases are generated and what makes one non-trivial / distinct
    ASSUMPTIONS list[str]
    CHECKS      list[Check]           generated sub-checks (Hypothesis)
    ENUMS       list[Enum]            exhaustive sub-checks (optional)

The parent process starts NSHARDS shard processes (fresh interpreters, PYTHONHASHSEED=0,
PYTHONPATH pointing at the optuna tree under test), every shard runs every sub-check with
a seed derived from VERIF_SEED and the shard number, and writes a JSON result.  The parent
merges the results, writes the evidence file and prints VIOLATION / KNOWN-FINDING lines.

Exit codes: 0 held, 1 violation (not listed as known), 2 harness error.
"""
from __future__ import annotations

import collections
import hashlib
import importlib
import json
import os
import shutil
import subprocess
import sys
import tempfile
import time
import traceback
from typing import Any, Callable

VERIF = os.path.dirname(os.path.dirname(os.path.dirname(os.path.abspath(__file__))))
REPO = os.environ.get("VERIF_REPO", "/repo")
NSHARDS = int(os.environ.get("VERIF_SHARDS", "16"))

PROPS = {
    "C01": "c01_storage_contract",
    "C02": "c02_terminal_state",
    "C03": "c03_linearizable",
    "C04": "c04_queue_claim",
    "C05": "c05_crash",
    "C06": "c06_journal_replay",
    "C07": "c07_journal_file",
    "C08": "c08_cache",
    "C09": "c09_reproducible",
    "C10": "c10_suggest_domain",
    "C11": "c11_roundtrip",
    "C12": "c12_best_trial",
    "C13": "c13_direction_mirror",
    "C14": "c14_exhaustive",
    "C15": "c15_hypervolume",
    "C16": "c16_pruners",
    "C17": "c17_search_space",
    "C18": "c18_tpe_kernels",
    "C19": "c19_stale_trials",
    "C20": "c20_snapshots",
}


# --------------------------------------------------------------------------------------
# tagged JSON for cases (NaN / inf / bytes / tuples / non-string keys)
# --------------------------------------------------------------------------------------


def enc(x: Any) -> Any:
    import math

    if isinstance(x, bool) or x is None or isinstance(x, str):
        return x
    if isinstance(x, int):
        x = int(x)
        if abs(x) > 2**53:
            return {"$i": str(x)}
        return x
    if isinstance(x, float):
        if math.isnan(x):
            return {"$f": "nan"}
        if math.isinf(x):
            return {"$f": "inf" if x > 0 else "-inf"}
        if x == 0.0 and math.copysign(1.0, x) < 0:
            return {"$f": "-0.0"}
        return float(x)
    if isinstance(x, bytes):
        return {"$b": x.hex()}
    if isinstance(x, tuple):
        return {"$t": [enc(v) for v in x]}
    if isinstance(x, list):
        return [enc(v) for v in x]
    if isinstance(x, (set, frozenset)):
        return {"$s": [enc(v) for v in sorted(x, key=repr)]}
    if isinstance(x, dict):
        if all(isinstance(k, str) and not k.startswith("$") for k in x):
            return {k: enc(v) for k, v in x.items()}
        return {"$d": [[enc(k), enc(v)] for k, v in x.items()]}
    try:
        import numpy as np

        if isinstance(x, np.generic):
            return enc(x.item())
        if isinstance(x, np.ndarray):
            return enc(x.tolist())
    except ImportError:  # pragma: no cover
        pass
    return {"$r": repr(x)}


def dec(x: Any) -> Any:
    if isinstance(x, list):
        return [dec(v) for v in x]
    if isinstance(x, dict):
        if len(x) == 1:
            (k, v), = x.items()
            if k == "$f":
                return float(v)
            if k == "$x":
                return float.fromhex(v)
            if k == "$i":
                return int(v)
            if k == "$b":
                return bytes.fromhex(v)
            if k == "$t":
                return tuple(dec(e) for e in v)
            if k == "$s":
                return set(dec(e) for e in v)
            if k == "$d":
                return {dec(a): dec(b) for a, b in v}
            if k == "$r":
                return v
        return {k: dec(v) for k, v in x.items()}
    return x


def fingerprint(x: Any) -> str:
    return hashlib.sha1(json.dumps(enc(x), sort_keys=True).encode()).hexdigest()[:16]


# --------------------------------------------------------------------------------------
# what a property module uses
# --------------------------------------------------------------------------------------


class Violation(Exception):
    """The property does not hold for `case`.  `sig` names the specific failure signature
    (compared with known_findings.json keys)."""

    def __init__(self, sig: str, msg: str, case: Any = None) -> None:
        super().__init__(f"{sig}: {msg}")
        self.sig = sig
        self.msg = msg
        self.case = case


class HarnessError(Exception):
    pass


class Check:
    def __init__(
        self,
        name: str,
        strategy: Callable[[str], Any],
        run: Callable[[Any, "Ctx"], None],
        examples: dict[str, int],
        shrink: Any = True,
        budget_s: dict[str, float] | None = None,
        case_timeout: float | None = None,
    ) -> None:
        self.name = name
        self.strategy = strategy
        self.run = run
        self.examples = examples
        self.shrink = shrink
        self.budget_s = budget_s or {"quick": 150.0, "thorough": 1500.0}
        self.case_timeout = case_timeout  # watchdog per case (seconds); None = default


class Enum:
    """Exhaustive sub-check: `run(ctx, tier, shard, nshards)` enumerates its share."""

    def __init__(self, name: str, run: Callable[["Ctx", str, int, int], None]) -> None:
        self.name = name
        self.run = run


class Ctx:
    def __init__(self, prop: str, tier: str, seed: int, shard: int, nshards: int) -> None:
        self.prop = prop
        self.tier = tier
        self.seed = seed
        self.shard = shard
        self.nshards = nshards
        self.evaluations = 0
        self.fps: set[str] = set()
        self.classes: collections.Counter[str] = collections.Counter()
        self.samples: list[Any] = []
        self.excluded_known: collections.Counter[str] = collections.Counter()
        self.excluded_sound: collections.Counter[str] = collections.Counter()
        self.known_hits: dict[str, Any] = {}
        self.extra: dict[str, Any] = {}
        self.exhaustive_parts: list[str] = []
        self.frozen = False
        self.deadline = float("inf")
        self.budget_hit = False
        self.sub = ""
        self._known = _load_known(prop)
        self.scratch = None

    # ---- counting -----------------------------------------------------------------
    def case(
        self,
        fp: Any = None,
        nontrivial: bool = False,
        classes: tuple[str, ...] | list[str] = (),
        sample: Any = None,
        n: int = 1,
    ) -> None:
        if self.frozen:
            return
        self.evaluations += n
        for c in classes:
            self.classes[self.sub + ":" + c] += 1
        if nontrivial:
            f = fp if isinstance(fp, str) else fingerprint(fp if fp is not None else sample)
            new = f not in self.fps
            self.fps.add(f)
            if sample is not None and new:
                mine = [s for s in self.samples if s["check"] == self.sub]
                if len(mine) < 2:
                    self.samples.append({"check": self.sub, "case": enc(sample)})

    def event(self, c: str, n: int = 1) -> None:
        if not self.frozen:
            self.classes[self.sub + ":" + c] += n

    def sound_skip(self, why: str) -> None:
        if not self.frozen:
            self.excluded_sound[why] += 1

    # ---- known findings -------------------------------------------------------------
    def known(self, key: str, what: str = "") -> bool:
        """True iff `key` is a recorded (status known) finding: the caller carves it out."""
        k = self._known.get(key)
        if k is None:
            return False
        self.known_hits.setdefault(key, {"what": k["what"], "example": what})
        self.excluded_known[key] += 1
        return True

    def out_of_time(self) -> bool:
        if time.monotonic() > self.deadline:
            self.budget_hit = True
            return True
        return False

    def tmpdir(self) -> str:
        return self.scratch


def _load_known(prop: str) -> dict[str, dict[str, Any]]:
    p = os.path.join(VERIF, "known_findings.json")
    if not os.path.exists(p):
        return {}
    with open(p) as f:
        entries = json.load(f)["findings"]
    return {e["key"]: e for e in entries if e["property"] == prop and e["status"] == "known"}


def scratch_root() -> str:
    for d in ("/dev/shm", os.environ.get("TMPDIR", ""), tempfile.gettempdir()):
        if d and os.path.isdir(d) and os.access(d, os.W_OK):
            return d
    return tempfile.gettempdir()


# --------------------------------------------------------------------------------------
# shard
# --------------------------------------------------------------------------------------


def _load(prop: str):
    sys.path.insert(0, os.path.join(VERIF, "pbt"))
    return importlib.import_module("props." + PROPS[prop])


def _write_replay(prop: str, sub: str, v: Violation, suffix: str = "") -> str:
    os.makedirs(os.path.join(VERIF, "replays"), exist_ok=True)
    body = {
        "property": prop,
        "check": sub,
        "signature": v.sig,
        "message": v.msg[:4000],
        "case": enc(v.case),
    }
    h = hashlib.sha1(json.dumps(body["case"], sort_keys=True).encode()).hexdigest()[:10]
    path = os.path.join(VERIF, "replays", f"{prop}-{sub}-{suffix or h}.json")
    with open(path, "w") as f:
        json.dump(body, f, indent=1, sort_keys=True)
    return path


def run_shard(prop: str, tier: str, seed: int, shard: int, nshards: int, out: str) -> None:
    import warnings

    warnings.simplefilter("ignore")
    import hypothesis
    from hypothesis import HealthCheck, Phase, given, settings

    cov = None
    if os.environ.get("VERIF_COVERAGE"):
        # measurement aid (tools/coverage_report.py), never part of a registered command: which
        # lines of optuna the generated cases reach.  COVERAGE_CORE=sysmon is set by the tool so
        # that the scheduler's sys.settrace and the measurement do not displace each other.
        import coverage

        cov = coverage.Coverage(data_file=os.path.join(os.environ["VERIF_COVERAGE"], f".coverage.{prop}.{shard}"), include=[os.path.join(REPO, "optuna", "*")])
        cov.start()
    mod = _load(prop)
    ctx = Ctx(prop, tier, seed, shard, nshards)
    ctx.scratch = tempfile.mkdtemp(prefix=f"verif-{prop}-{shard}-", dir=scratch_root())
    result: dict[str, Any] = {"violations": [], "errors": []}
    only = os.environ.get("VERIF_ONLY")
    scale = float(os.environ.get("VERIF_SCALE", "1"))
    try:
        _replay_corpus(mod, prop, ctx, shard, nshards, only, result)
        for e in getattr(mod, "ENUMS", []):
            if only and e.name not in only.split(","):
                continue
            ctx.sub = e.name
            try:
                e.run(ctx, tier, shard, nshards)
            except Violation as v:
                ctx.frozen = True
                path = _write_replay(prop, e.name, v)
                result["violations"].append(
                    {"check": e.name, "sig": v.sig, "msg": v.msg[:2000], "replay": path}
                )
                ctx.frozen = False
        for c in mod.CHECKS:
            if only and c.name not in only.split(","):
                continue
            ctx.sub = c.name
            total = max(1, int(c.examples[tier] * scale))
            n = total // nshards + (1 if shard < total % nshards else 0)
            if n == 0:
                continue
            ctx.deadline = time.monotonic() + c.budget_s[tier] * max(1.0, scale)
            first: list[Violation] = []
            # Hypothesis always starts a run with the simplest case of the strategy; when a shard
            # only gets a handful of examples that would be most of its budget (and the same
            # case in all 16 shards), so it is skipped there
            skip_first = n < 40
            if skip_first:
                n += 1
            body = _make_body(c, ctx, first, prop, seed, shard, skip_first)

            phases = [Phase.explicit, Phase.generate, Phase.target]
            if c.shrink is True:
                phases.append(Phase.shrink)
            test = given(c.strategy(tier))(body)
            test = settings(
                max_examples=n,
                database=None,
                deadline=None,
                derandomize=False,
                report_multiple_bugs=False,
                phases=phases,
                suppress_health_check=[HealthCheck.too_slow, HealthCheck.data_too_large],
                print_blob=False,
            )(test)
            test = hypothesis.seed((seed * 1000003 + shard * 7919 + _subseed(c.name)) % 2**63)(test)
            try:
                test()
            except Violation as v:
                if isinstance(c.shrink, str) and c.shrink.startswith("ddmin:"):
                    v = _ddmin(c, ctx, v, c.shrink[6:], 90.0 if tier == "quick" else 240.0)
                path = _write_replay(prop, c.name, v)
                un = os.path.join(
                    VERIF, "replays", f"{prop}-{c.name}-unshrunk-s{seed}-{shard}.json"
                )
                if os.path.exists(un):
                    os.unlink(un)
                result["violations"].append(
                    {"check": c.name, "sig": v.sig, "msg": v.msg[:2000], "replay": path}
                )
            except BaseException as e:  # harness error, Hypothesis health check, Flaky ...
                if isinstance(e, KeyboardInterrupt):
                    raise
                if first and type(e).__name__ in ("Flaky", "FlakyFailure", "FlakyReplay"):
                    # the check did observe a violation on this tree, but it did not recur when
                    # Hypothesis re-executed the same case (free-running threads, e.g. n_jobs > 1)
                    v = first[0]
                    v.sig += ":intermittent"
                    v.msg += " [observed once; not reproduced on re-execution of the same case: timing dependent]"
                    path = _write_replay(prop, c.name, v)
                    result["violations"].append({"check": c.name, "sig": v.sig, "msg": v.msg[:2000], "replay": path})
                    ctx.frozen = False
                    continue
                result["errors"].append(
                    {"check": c.name, "error": "".join(traceback.format_exception(e))[-6000:]}
                )
            ctx.frozen = False
    finally:
        try:
            from core import backends

            for f in list(backends._factories.values()):
                f.close()
        except Exception:
            pass
        shutil.rmtree(ctx.scratch, ignore_errors=True)
        if cov is not None:
            cov.stop()
            cov.save()
    result.update(
        evaluations=ctx.evaluations,
        fps=sorted(ctx.fps),
        classes=dict(ctx.classes),
        samples=ctx.samples,
        excluded_known=dict(ctx.excluded_known),
        excluded_sound=dict(ctx.excluded_sound),
        known_hits=ctx.known_hits,
        extra=ctx.extra,
        exhaustive_parts=ctx.exhaustive_parts,
        budget_hit=ctx.budget_hit,
    )
    with open(out, "w") as f:
        json.dump(result, f)


def _replay_corpus(mod: Any, prop: str, ctx: "Ctx", shard: int, nshards: int, only: str | None, result: dict[str, Any]) -> None:
    """The seconds-long replay tier: every saved case under /verif/corpus/<prop>/ (shrunk
    failing inputs of the repaired defects and of the seeded changes) is run first, through the
    same run function and oracle as a generated case."""
    import signal

    d = os.path.join(VERIF, "corpus", prop)
    if not os.path.isdir(d) or os.environ.get("VERIF_NO_CORPUS"):
        # (VERIF_NO_CORPUS=1: measurement aid for tools/mutants.py -- is a change still found by
        # generation alone?  Never set by a registered command.)
        return
    subs = {c.name: c for c in list(mod.CHECKS) + list(getattr(mod, "ENUMS", []))}
    for i, name in enumerate(sorted(os.listdir(d))):
        if not name.endswith(".json") or i % nshards != shard:
            continue
        path = os.path.join(d, name)
        with open(path) as f:
            body = json.load(f)
        sub = subs.get(body["check"])
        if sub is None or (only and body["check"] not in only.split(",")):
            continue
        ctx.sub = body["check"]
        fn = getattr(sub, "replay", None) or getattr(mod, "REPLAY", {}).get(sub.name) or sub.run
        signal.signal(signal.SIGALRM, _alarm)
        signal.setitimer(signal.ITIMER_REAL, float(getattr(sub, "case_timeout", None) or 90.0))
        try:
            fn(dec(body["case"]), ctx)
            ctx.event("corpus_cases_replayed")
        except CaseTimeout:
            ctx.event("corpus_cases_timed_out")
        except Violation as v:
            result["violations"].append({"check": body["check"], "sig": v.sig, "msg": f"[saved case {name}] " + v.msg[:2000], "replay": path})
        finally:
            signal.setitimer(signal.ITIMER_REAL, 0)


class CaseTimeout(BaseException):
    pass


def _alarm(signum: Any, frame: Any) -> None:
    raise CaseTimeout()


def _make_body(c: Check, ctx: Ctx, first: list, prop: str, seed: int, shard: int, skip_first: bool = False):
    import signal

    calls = [0]

    limit = float(os.environ.get("VERIF_CASE_TIMEOUT", "0") or 0) or c.case_timeout or 90.0

    def body(case: Any) -> None:
        calls[0] += 1
        if skip_first and calls[0] == 1 and shard != 0:
            return
        if ctx.out_of_time() and not ctx.frozen:
            return
        # watchdog: a case that blocks (e.g. an unbounded retry loop inside optuna) is recorded
        # as inconclusive, never as a violation
        signal.signal(signal.SIGALRM, _alarm)
        signal.setitimer(signal.ITIMER_REAL, limit)
        try:
            c.run(case, ctx)
        except CaseTimeout:
            if not ctx.frozen:
                ctx.extra.setdefault("timeouts", {})
                ctx.extra["timeouts"][c.name] = ctx.extra["timeouts"].get(c.name, 0) + 1
                if len(ctx.extra.setdefault("timeout_samples", {})) < 2:
                    ctx.extra["timeout_samples"][f"{c.name}-{shard}-{ctx.evaluations}"] = json.dumps(enc(case))[:3000]
            return
        except Violation as v:
            if v.case is None:
                v.case = case
            if not first:
                first.append(v)
                ctx.frozen = True
                _write_replay(prop, c.name, v, suffix=f"unshrunk-s{seed}-{shard}")
            raise
        finally:
            signal.setitimer(signal.ITIMER_REAL, 0)

    return body


def _ddmin(c: Check, ctx: Ctx, v: Violation, key: str, budget: float) -> Violation:
    """Delta debugging over the list case[key] (used where Hypothesis' shrinker is too slow):
    keeps a sub-list that still raises a Violation with the same signature."""
    import copy as _copy

    t_end = time.monotonic() + budget
    case = _copy.deepcopy(v.case)
    items = list(case[key])
    best = v

    def fails(cand: list) -> Violation | None:
        cc = dict(case)
        cc[key] = cand
        try:
            c.run(_copy.deepcopy(cc), ctx)
        except Violation as w:
            if w.sig == v.sig:
                if w.case is None:
                    w.case = cc
                return w
        except Exception:
            return None
        return None

    n = 2
    while len(items) >= 2 and time.monotonic() < t_end:
        chunk = max(1, -(-len(items) // n))
        reduced = False
        for i in range(0, len(items), chunk):
            cand = items[:i] + items[i + chunk :]
            w = fails(cand)
            if w is not None:
                items, best, reduced = cand, w, True
                n = max(n - 1, 2)
                break
            if time.monotonic() > t_end:
                break
        if not reduced:
            if n >= len(items):
                break
            n = min(n * 2, len(items))
    best.case = dict(case)
    best.case[key] = items
    return best


def _subseed(name: str) -> int:
    return int(hashlib.sha1(name.encode()).hexdigest()[:6], 16)


# --------------------------------------------------------------------------------------
# parent
# --------------------------------------------------------------------------------------


def child_env() -> dict[str, str]:
    env = dict(os.environ)
    env["PYTHONHASHSEED"] = "0"
    pp = [REPO, os.path.join(VERIF, "pbt")]
    deps = os.path.join(VERIF, ".deps")
    if os.path.isdir(deps):
        pp.append(deps)
    if env.get("PYTHONPATH"):
        pp.append(env["PYTHONPATH"])
    env["PYTHONPATH"] = os.pathsep.join(pp)
    env["VERIF_REPO"] = REPO
    env.setdefault("OMP_NUM_THREADS", "1")
    env.setdefault("MKL_NUM_THREADS", "1")
    env.setdefault("OPENBLAS_NUM_THREADS", "1")
    return env


def run_property(prop: str, tier: str, seed: int) -> int:
    t0 = time.time()
    mod_name = PROPS[prop]
    outdir = tempfile.mkdtemp(prefix=f"verif-{prop}-out-", dir=scratch_root())
    procs = []
    try:
        for s in range(NSHARDS):
            out = os.path.join(outdir, f"{s}.json")
            cmd = [
                sys.executable,
                os.path.join(VERIF, "pbt", "run.py"),
                prop,
                "--tier",
                tier,
                "--shard",
                str(s),
                "--nshards",
                str(NSHARDS),
                "--seed",
                str(seed),
                "--out",
                out,
            ]
            log = open(os.path.join(outdir, f"{s}.log"), "w")
            procs.append((s, out, log, subprocess.Popen(cmd, env=child_env(), stdout=log, stderr=log)))
        results = []
        errors = []
        for s, out, log, p in procs:
            rc = p.wait()
            log.close()
            if rc != 0 or not os.path.exists(out):
                with open(os.path.join(outdir, f"{s}.log")) as f:
                    errors.append({"check": f"shard {s}", "error": f"rc={rc}\n" + f.read()[-6000:]})
                continue
            with open(out) as f:
                results.append(json.load(f))
    finally:
        for _, _, _, p in procs:
            if p.poll() is None:
                p.kill()
        shutil.rmtree(outdir, ignore_errors=True)

    sys.path.insert(0, os.path.join(VERIF, "pbt"))
    # merge
    evaluations = sum(r["evaluations"] for r in results)
    fps: set[str] = set()
    classes: collections.Counter[str] = collections.Counter()
    ex_known: collections.Counter[str] = collections.Counter()
    ex_sound: collections.Counter[str] = collections.Counter()
    samples: list[Any] = []
    known_hits: dict[str, Any] = {}
    violations: list[Any] = []
    extra: dict[str, Any] = {}
    exhaustive_parts: set[str] = set()
    budget_hit = False
    for r in results:
        fps.update(r["fps"])
        classes.update(r["classes"])
        ex_known.update(r["excluded_known"])
        ex_sound.update(r["excluded_sound"])
        known_hits.update(r["known_hits"])
        violations.extend(r["violations"])
        errors.extend(r["errors"])
        exhaustive_parts.update(r["exhaustive_parts"])
        budget_hit = budget_hit or r["budget_hit"]
        for k, v in r["extra"].items():
            if isinstance(v, (int, float)):
                extra[k] = extra.get(k, 0) + v
            elif isinstance(v, dict):
                d = extra.setdefault(k, {})
                for kk, vv in v.items():
                    if kk.startswith("max:"):
                        d[kk] = max(d.get(kk, vv), vv)
                    else:
                        d[kk] = d.get(kk, 0) + vv if isinstance(vv, (int, float)) else vv
            else:
                extra[k] = v
    per_check: dict[str, int] = collections.Counter()
    for r in results:
        for s in r["samples"]:
            if per_check[s["check"]] < 2:
                per_check[s["check"]] += 1
                samples.append(s)

    meta = _static_meta(mod_name)
    # every listed (status known) finding of this property is reported on every run; how often
    # its carve-out was actually taken in this run is in the evidence (excluded_known)
    for key, ent in sorted(_load_known(prop).items()):
        print(f"KNOWN-FINDING: property={prop} {key}: {ent['what']} [carved out {ex_known.get(key, 0)} times in this run]")
    seen_sig = set()
    reported: dict[str, str] = {}
    for v in violations:
        if v["sig"] in seen_sig:
            # the same signature found by another shard: keep one replay file only
            if v["replay"] != reported.get(v["sig"]) and v["replay"].startswith(os.path.join(VERIF, "replays") + os.sep):
                try:
                    os.unlink(v["replay"])
                except OSError:
                    pass
            continue
        reported[v["sig"]] = v["replay"]
        seen_sig.add(v["sig"])
        print(f"VIOLATION property={prop} replay={v['replay']}")
        print(f"  check={v['check']} signature={v['sig']}")
        print("  " + v["msg"].replace("\n", "\n  ")[:1500])
    for e in errors:
        print(f"HARNESS-ERROR property={prop} check={e['check']}\n{e['error']}", file=sys.stderr)

    wall = time.time() - t0
    evidence = {
        "property_id": prop,
        "tier": tier,
        "seed": seed,
        "level": meta["LEVEL"],
        "coverage": {
            "evaluations": evaluations,
            "distinct_nontrivial": len(fps),
            "rule": meta["RULE"],
            "samples": samples[:12],
            "classes": dict(sorted(classes.items())),
            "excluded_known": dict(ex_known),
            "excluded_by_soundness": dict(ex_sound),
            "exhaustive": False,
            "exhaustive_parts": sorted(exhaustive_parts),
            "budget_hit_inconclusive_remainder": budget_hit,
            "shards": NSHARDS,
            "extra": extra,
        },
        "assumptions": meta["ASSUMPTIONS"],
        "wall_s": round(wall, 2),
        "violations": len(seen_sig),
        "known_findings_reported": sorted(known_hits),
        "harness_errors": len(errors),
    }
    os.makedirs(os.path.join(VERIF, "evidence"), exist_ok=True)
    if not errors or evaluations > 0:
        with open(os.path.join(VERIF, "evidence", f"{prop}.json"), "w") as f:
            json.dump(evidence, f, indent=1, sort_keys=True)
    print(
        f"{prop} tier={tier} seed={seed} evaluations={evaluations} "
        f"distinct_nontrivial={len(fps)} violations={len(seen_sig)} "
        f"known={len(known_hits)} errors={len(errors)} wall={wall:.1f}s"
    )
    if seen_sig:
        return 1
    if errors:
        return 2
    return 0


def _static_meta(mod_name: str) -> dict[str, Any]:
    """Read LEVEL/RULE/ASSUMPTIONS without importing optuna in the parent."""
    import ast

    path = os.path.join(VERIF, "pbt", "props", mod_name + ".py")
    tree = ast.parse(open(path).read())
    out: dict[str, Any] = {"LEVEL": "exploration", "RULE": "", "ASSUMPTIONS": []}
    for node in tree.body:
        if isinstance(node, ast.Assign) and len(node.targets) == 1:
            t = node.targets[0]
            if isinstance(t, ast.Name) and t.id in out:
                out[t.id] = ast.literal_eval(node.value)
    return out


def replay(prop: str, path: str) -> int:
    sys.path.insert(0, REPO)
    mod = _load(prop)
    with open(path) as f:
        body = json.load(f)
    case = dec(body["case"])
    ctx = Ctx(prop, "quick", 0, 0, 1)
    ctx.scratch = tempfile.mkdtemp(prefix=f"verif-{prop}-replay-", dir=scratch_root())
    ctx.sub = body["check"]
    try:
        subs = {c.name: c for c in list(mod.CHECKS) + list(getattr(mod, "ENUMS", []))}
        sub = subs[body["check"]]
        replay_fn = getattr(sub, "replay", None) or getattr(mod, "REPLAY", {}).get(sub.name)
        try:
            if replay_fn is not None:
                replay_fn(case, ctx)
            else:
                sub.run(case, ctx)
        except Violation as v:
            print(f"VIOLATION property={prop} replay={path}")
            print(f"  signature={v.sig}\n  {v.msg[:1500]}")
            return 1
        for key, hit in sorted(ctx.known_hits.items()):
            print(f"KNOWN-FINDING: property={prop} {key}: {hit['what']}")
        print(f"replay of {path}: property held")
        return 0
    finally:
        shutil.rmtree(ctx.scratch, ignore_errors=True)
