#!/venv/bin/python
"""CLI:  run.py Cxx [--tier quick|thorough] [--replay FILE]

exit 0 = property held on everything explored, 1 = VIOLATION printed, 2 = harness error.
"""
from __future__ import annotations

import argparse
import os
import sys

HERE = os.path.dirname(os.path.abspath(__file__))
sys.path.insert(0, HERE)


def main() -> int:
    ap = argparse.ArgumentParser()
    ap.add_argument("prop")
    ap.add_argument("--tier", default=os.environ.get("VERIF_TIER", "quick"))
    ap.add_argument("--replay")
    ap.add_argument("--shard", type=int)
    ap.add_argument("--nshards", type=int, default=16)
    ap.add_argument("--seed", type=int)
    ap.add_argument("--out")
    a = ap.parse_args()
    if a.tier not in ("quick", "thorough"):
        a.tier = "quick"
    try:
        seed = a.seed if a.seed is not None else int(os.environ.get("VERIF_SEED", "1") or 1)
    except ValueError:
        seed = 1
    from core import runner

    if a.prop not in runner.PROPS:
        print(f"unknown property {a.prop}", file=sys.stderr)
        return 2
    if a.shard is not None:
        runner.run_shard(a.prop, a.tier, seed, a.shard, a.nshards, a.out)
        return 0
    if a.replay:
        os.environ.setdefault("PYTHONHASHSEED", "0")
        return runner.replay(a.prop, a.replay)
    return runner.run_property(a.prop, a.tier, seed)


if __name__ == "__main__":
    try:
        rc = main()
    except SystemExit:
        raise
    except BaseException:
        import traceback

        traceback.print_exc()
        rc = 2
    sys.exit(rc)
