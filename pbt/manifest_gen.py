"""Regenerates /verif/MANIFEST.json from the table below (python pbt/manifest_gen.py)."""
from __future__ import annotations

import json
import os

VERIF = os.path.dirname(os.path.dirname(os.path.abspath(__file__)))

# id -> (technique, level category, level text, level note, design ref)
BUILT: dict[str, dict[str, str]] = {
    "C11": dict(
        technique="property-based testing (Hypothesis): round-trip oracles over generated distributions/values/box points + exhaustive enumeration of the integer helpers",
        category="exploration",
        text="Generated-input search: tens of thousands (quick) to millions (thorough) of distributions with adversarial digit patterns, every flag combination of the transform, round-trip / fixed-point / exact-rational membership oracles; the small integer sub-domain is enumerated completely. Shows absence of counterexamples in the explored region only.",
        note="Trusts Python's decimal/fractions/json and numpy; ordinary magnitudes only (see evidence assumptions).",
        ref="DESIGN.md 3/C11",
    ),
    "C15": dict(
        technique="property-based testing (Hypothesis): generated lattice/float/-inf point sets against exact oracles (inclusion-exclusion volume in Fractions, O(n^2) Pareto peeling, exhaustive best subset)",
        category="exploration",
        text="Generated-input search over adversarial point sets (duplicates, ties, dominated points, -inf, points touching the reference point) in 1-5 dimensions; every answer compared with an independent exact oracle (equality on the lattice). Absence of counterexamples in the explored region only.",
        note="Trusts fractions.Fraction and the two oracle implementations (cross-checked against each other on small cases); finite reference points only.",
        ref="DESIGN.md 3/C15",
    ),
    "C18": dict(
        technique="property-based testing (Hypothesis): generated (a, b, q, x, loc, scale) and mixtures, differential against mpmath (60 digits) and SciPy, probability-space quantile check, quadrature / exact-sum normalisation",
        category="exploration",
        text="Generated-input search concentrated on the kernels' branch points, far tails (|a|,|b|<=100) and narrow intervals (width>=1e-8); every output compared with a 60-digit reference under a stated, calibrated tolerance; membership of quantiles/samples in the interval is exact. Absence of counterexamples in the explored region only.",
        note="Trusts mpmath and SciPy as references; tolerances calibrated on the unchanged tree (max observed errors are in the evidence).",
        ref="DESIGN.md 3/C18",
    ),
    "C16": dict(
        technique="property-based testing (Hypothesis): generated pruner configurations and interleaved training-curve programs run through ask/report/should_prune/tell; safety oracle derived from the docstrings, exact oracle for Threshold/Nop, metamorphic replay under a trial-id offset; exhaustive enumeration of the two integer helpers",
        category="exploration",
        text="Generated-history search: every should_prune decision of thousands of interleaved studies is checked against the protections the pruner documents (warm-up, start-up, interval, n_min_trials, first rung, patience window, champion), the Threshold pruner against an exact model, and Hyperband brackets/decisions against a replay with different trial ids, different trial contents and a pruner object that served another study before. Absence of counterexamples in the explored region only.",
        note="In-memory storage; weakest reading of ambiguous docstrings (see evidence assumptions).",
        ref="DESIGN.md 3/C16",
    ),
    "C17": dict(
        technique="property-based testing (Hypothesis): generated ask/suggest/tell/enqueue/add histories with out-of-order finishes; incremental calculators compared with a from-scratch computation and an independent definition; partition invariants for the group decomposition",
        category="exploration",
        text="Generated-history search on three backends with several calculator objects started at different times; every calculate() is compared with a fresh computation over the study's current trials and with an independent six-line definition, plus monotonicity and partition invariants. Absence of counterexamples in the explored region only.",
        note="Trusts the Study API to report the trials (C01/C20 cover that); one study per calculator.",
        ref="DESIGN.md 3/C17",
    ),
    "C01": dict(
        technique="model-based property testing (Hypothesis): generated call histories by symbolic handles applied to a reference model of the BaseStorage docstrings and to eleven storage configurations; result / exception-class / full-state comparison after every step; delta-debugged replay",
        category="exploration",
        text="Generated-history differential against an executable contract model: every call's outcome and the complete readable state through every getter are compared on in-memory, SQLite, cached SQLite, journal (file with both locks, redis) and the gRPC proxy over five of them. Covers delete-then-recreate, writes after finish through every setter, templates carrying every field incl. NaN/inf, interleaved studies sharing an id space, dead and never-allocated ids. Absence of counterexamples in the explored region only.",
        note="The model is my reading of the docstrings; inputs on which the contract is silent are excluded and counted (evidence: excluded_by_soundness). SQLite/fakeredis stand in for MySQL/PostgreSQL/Redis.",
        ref="DESIGN.md 2.1, 3/C01",
    ),
    "C12": dict(
        technique="property-based testing (Hypothesis): generated trial histories (ties, infinities, constraints, 1-4 objectives) on seven backends; best_trial/best_trials compared with a brute-force scan after every step",
        category="exploration",
        text="Generated-history search with a brute-force oracle (strictly-better scan for the single-objective case incl. the documented constraint fallback, O(n^2) dominance for the Pareto front), evaluated after every step on the incremental in-memory backend and at generated points on SQLite, journal and gRPC-proxied backends. Absence of counterexamples in the explored region only.",
        note="Ties are free; the documented 'undefined' case (best-valued trial without constraint values in a constrained study) only has to satisfy the unconstrained clause.",
        ref="DESIGN.md 3/C12",
    ),
    "C06": dict(
        technique="model-based property testing (Hypothesis): generated multi-worker logs (issuer per call, intruder records inside a batch, lagging observers, snapshots, late joiners, workers that are pickled copies of another worker) replayed by several JournalStorage objects; every call and every worker's final state compared with ModelStorage applied in log order and with a fresh replay",
        category="exploration",
        text="Generated-history search over (log, batch split, snapshot point, issuer) tuples: all batch splits a correct backend can produce are reached through observer workers and an append hook that places another worker's record between an issuer's append and read; convergence is checked against a reference model, pairwise between workers and against a replay from record 0, on the file backend (both locks) and fakeredis with small snapshot intervals.",
        note="fakeredis for Redis; the hook is a plain BaseJournalBackend wrapper. Thread-level interleavings inside one JournalStorage are C03's subject.",
        ref="DESIGN.md 3/C06",
    ),
    "C14": dict(
        technique="property-based testing (Hypothesis): generated finite define-by-run programs (conditional trees, shared sub-programs, failing/pruned leaves) and grids, split / interrupted / resumed runs on four backends; oracle = multiset of evaluated parameter dicts equals the set of leaf paths exactly once and optimize() stops by itself",
        category="exploration",
        text="Generated-program search with a validity oracle (exactly-once coverage + self-termination under a cap) over program shape, digit patterns of stepped floats, seeds, avoid_premature_stop, split points, interruption points and backends. One recorded finding (gRPC proxy loses parameter order) is carved out for multi-parameter paths only.",
        note="Sequential runs on fresh studies; failures/prunes at leaves only (documented limitation of the sampler).",
        ref="DESIGN.md 3/C14",
    ),
    "C09": dict(
        technique="differential property testing (Hypothesis): generated deterministic objective programs x seeded samplers x pruners; the run on a fresh in-memory storage is compared trial by trial with re-runs, another process (different PYTHONHASHSEED), six other storage configurations, storages with trial-id offsets, split runs; copy_study field-for-field",
        category="exploration",
        text="Generated-configuration differential: any difference in (params seen by the objective, stored params, intermediate values, state, values) between the baseline and a variant is a violation. Two recorded findings (GA parent cache uses ids as indices; gRPC proxy loses parameter order for BruteForce/QMC) are carved out for exactly those (sampler, variant) pairs and counted.",
        note="Study name fixed; n_jobs=1; CmaEs unavailable; GP only in the thorough tier.",
        ref="DESIGN.md 3/C09",
    ),
    "C13": dict(
        technique="metamorphic property testing (Hypothesis): generated objective programs x seeded samplers x pruners run twice -- as given and with a generated subset of objectives flipped (direction toggled, values and reports negated, thresholds mirrored); per-trial params / states / reported steps / negated values and best trial(s) must coincide; plus pruner-only interleaved report/should_prune histories run as given and mirrored",
        category="exploration",
        text="Generated-configuration metamorphic search over every sampler x pruner pair reachable offline and every subset of flipped objectives, with pairwise-distinct values and dyadic reports (NaN and both infinities among them) so that exact mirroring is well defined; thousands of pruner-only histories per run; a few dozen GP-sampler pairs in the quick tier. Absence of counterexamples in the explored region only.",
        note="In-memory storage; GA samplers under HyperbandPruner are not generated (they crash independently of direction).",
        ref="DESIGN.md 3/C13",
    ),
    "C10": dict(
        technique="property-based testing (Hypothesis): generated adversarial distributions (incl. step grids of 5e7-2e9 cells and steps of 1e-10) x trial plans (changing ranges and steps for one name, enqueued / fixed values, rejected-then-retried suggestions, pruned / failed trials) x every sampler in independent and relative mode x four backends; membership judged by an exact-rational oracle, stability and read-back equality checked inside and after the objective",
        category="exploration",
        text="Generated-input search: every suggest_* return value of thousands of studies is tested for membership in the declared domain (exact arithmetic for step grids, 4+|log| ulps for log floats), for stability on a second call, for precedence of enqueued / fixed values, and against trial.params and the backend's study.trials. Absence of counterexamples in the explored region only.",
        note="|bounds| <= 1e9; GA samplers are not combined with log ranges a few ulps wide (their rejection loop does not terminate there: recorded in DESIGN.md as a defect outside the listed properties); GP in the thorough tier only.",
        ref="DESIGN.md 3/C10",
    ),
    "C02": dict(
        technique="property-based testing (Hypothesis): generated objective programs (scripts ending in any exception or any value of a Python-value catalogue) x samplers x pruners x storages x n_jobs x catch sets x faulty callbacks / sampler hooks, and generated ask/tell sequences; expected terminal state computed from what each script did",
        category="exploration",
        text="Generated-program search with an executable reading of the statement as oracle (COMPLETE iff every returned element converts with float(), none is NaN and there is one per objective), checked whenever optimize returns or raises, plus exactly-once callbacks, exact trial counts, propagation of uncaught exceptions and bit-identity of finished trials under repeated tell.",
        note="Built-in samplers; faults injected into after_trial only; n_jobs<=3 free-running threads (no schedule control here: C03/C04 own that).",
        ref="DESIGN.md 3/C02",
    ),
    "C20": dict(
        technique="property-based testing (Hypothesis): generated read/write sequences issued by two persistent threads over every object-returning getter and every writer of the Study and storage APIs (incl. optimize() with objectives that read the study and end in every way) on seven storage configurations; pickle-at-read vs pickle-after-every-later-write byte comparison; poisoning of deep copies",
        category="exploration",
        text="Generated-history search over the getter x later-writer x backend product (the coverage matrix is in the evidence): every handed-out object must stay byte-identical under all later writes, and mutating deep-copied results must never show up in later reads.",
        note="Storage-level study-attribute dictionaries of the in-memory/journal storages are out of scope (the statement names dictionaries obtained from a study); thread interleavings inside a call are C03's subject.",
        ref="DESIGN.md 3/C20",
    ),
    "C08": dict(
        technique="differential property testing (Hypothesis): generated interleaved histories of five clients (two cached, one raw, two gRPC proxies over raw / cached server storages) on one SQLite database; every read through a cache is compared at once with a raw view of the same database",
        category="exploration",
        text="Generated-history differential across clients: writes by any client (incl. finished templates, out-of-order finishes, several studies in one id space, deletes) followed by reads through generated clients, each compared with a fresh raw RDBStorage answer. The recorded finding (a study deleted by another client stays cached) is carved out only for (client, id) pairs that had read the id before the foreign delete.",
        note="SQLite for the RDB backend; the thread sub-check reuses the C03 scheduler and linearizability oracle on the cached layouts.",
        ref="DESIGN.md 3/C08",
    ),
    "C07": dict(
        technique="schedule enumeration + property-based testing (Hypothesis): generated multi-backend append/read scenarios on one journal file under a deterministic scheduler whose yield points are the system calls of _file.py (chunked writes); all single-preemption schedules per scenario plus generated 2-3-preemption schedules; oracle from the system-call trace and return values",
        category="exploration",
        text="For each generated scenario every single-preemption interleaving of the workers' system calls is executed (long scenarios: strided) and judged: no interleaved appends, one lock holder at a time, reads return exact slices of the append order covering all finished appends, no exceptions, offset caches agree with a fresh reader afterwards. Scenarios are sampled, schedules with more than three preemptions are not explored.",
        note="'Processes' = backend objects with own lock objects and caches sharing a real file; virtual clock; the os/open/time names of _file.py are rebound from outside (no source hook).",
        ref="DESIGN.md 2.3, 2.4, 3/C07",
    ),
    "C05": dict(
        technique="fault enumeration + property-based testing (Hypothesis): generated (pre-history, victim calls, continuation) scenarios; the victim's system-call trace on the journal file is enumerated completely as crash points incl. every byte offset of short record writes; SQLite victims are real forked processes SIGKILLed at SQL event boundaries, incl. every event of the first worker's schema creation and version stamp on a new file; ModelStorage before/after oracle",
        category="fault_enumeration",
        text="Per scenario all crash points of the victim are enumerated (journal: every system-call boundary before/after + torn writes at every byte of records up to 200 bytes; SQLite quick tier: a generated sample of event boundaries, thorough tier: all; the set-up of a new database file: all, in both tiers). After each crash the survivors' view must equal the model after the acknowledged calls or after those plus the interrupted call, and the continuation must behave as the model says. Scenarios themselves are sampled.",
        note="Crash = process death (no power loss); the dead worker's cleanup code is prevented from running; SQLite's own journal is trusted.",
        ref="DESIGN.md 2.4, 3/C05",
    ),
    "C04": dict(
        technique="schedule enumeration + property-based testing (Hypothesis): generated queue scenarios (enqueue / add WAITING / imported finished trials / delete-recreate / pre-owned RUNNING trial / caller re-using its dicts) and worker scripts (RandomSampler or multivariate TPE) run under a deterministic line-level scheduler on nine thread / 'process' layouts ('processes' share one thread ident like forked workers and may hold pickled copies of one journal storage); the plain two-workers-one-queued-trial race is enumerated on every layout; all single-preemption schedules (or a stratified sample) plus generated multi-preemption schedules; exactly-once and verbatim-parameter oracle incl. a sequential drain",
        category="exploration",
        text="For each generated scenario the interleavings with one preemption at any source line of the storage layer / the ask path (and any system call of the journal file backend) are executed -- completely in the thorough tier, as a stratified sample of 50-90 switch points in the quick tier -- and judged: no trial id returned twice, no queued trial skipped or lost, enqueued values (as of enqueue time) delivered verbatim, number and user attributes kept.",
        note="Line-granular preemption, simulated processes, SQLite busy timeout 0 (documented 'database is locked' errors are allowed outcomes).",
        ref="DESIGN.md 2.3, 3/C04",
    ),
    "C19": dict(
        technique="schedule enumeration + property-based testing (Hypothesis): generated heartbeat histories (stale / fresh / no-beat / finished trials, retry chains several generations deep) and worker scripts (fail_stale_trials, ask, the slow owner completing a stale trial) in a generated local time zone under the deterministic line-level scheduler on SQLite thread / 'process' layouts, with worker death at generated yield points; at-most-once oracle on FAIL transitions, callback invocations and retries",
        category="exploration",
        text="Per generated scenario: single-preemption schedules (quick: stratified sample of 60 switch points; thorough: all), generated multi-preemption schedules, and death points of one worker; after a final sweep by a live worker every stale trial must be FAIL, the callback must have run at most once per failure, at most one correct retry per failure and none beyond max_retry, healthy trials untouched; a stale trial its owner completes meanwhile is either COMPLETE without any failure handling or FAIL with the owner's call rejected.",
        note="Heartbeat age is set by SQL, not by waiting; line-granular preemption; simulated processes; busy timeout 0.",
        ref="DESIGN.md 2.3, 3/C19",
    ),
    "C03": dict(
        technique="schedule enumeration + property-based testing (Hypothesis) with a Wing-Gong linearizability oracle: generated and systematic multi-worker storage scenarios on eleven thread / 'process' / mixed layouts under a deterministic line-level scheduler; every schedule's call history is searched for a sequential order that ModelStorage reproduces (results, exception classes, final state)",
        category="exploration",
        text="Sixteen classic same-object races are run on every layout with all single-preemption schedules (quick tier: sampled on the journal-file and SQLite layouts) and release-x-anywhere two-preemption pairs on the cheap thread layouts, plus generated scenarios with single- and multi-preemption schedules; preemption points include the gaps between the elements of a container being copied; each history must be linearizable against the reference model and end in the backend's real final state. One recorded finding (SQLite check-then-write of the non-state setters) is carved out for exactly that overlap.",
        note="Line-granular preemption; simulated processes; gRPC server threads not scheduled; busy timeout 0 ('database is locked' allowed as a no-effect outcome).",
        ref="DESIGN.md 2.3, 3/C03",
    ),
}

NOT_YET: dict[str, str] = {}


def main() -> None:
    props = [json.loads(l) for l in open(os.path.join(VERIF, "properties.jsonl"))]
    checks = []
    na = []
    for p in props:
        pid = p["id"]
        if pid in BUILT:
            b = BUILT[pid]
            checks.append(
                {
                    "property_id": pid,
                    "quick_cmd": f"/venv/bin/python pbt/run.py {pid} --tier quick",
                    "thorough_cmd": f"/venv/bin/python pbt/run.py {pid} --tier thorough",
                    "evidence_file": f"/verif/evidence/{pid}.json",
                    "replay_cmd_template": f"/venv/bin/python pbt/run.py {pid} --replay {{path}}",
                    "engine": "pbt",
                    "level_claimed": {"category": b["category"], "text": b["text"], "design_ref": b["ref"]},
                    "level_note": b["note"],
                    "technique": b["technique"],
                }
            )
        else:
            na.append(
                {
                    "property_id": pid,
                    "reason": NOT_YET.get(pid, "check not built yet in this round (designed in DESIGN.md section 3); not claimed until its check is registered"),
                }
            )
    manifest = {
        "version": 1,
        "setup_cmd": "/venv/bin/python -c 'import hypothesis' 2>/dev/null || /venv/bin/pip install --no-index --find-links /opt/veriftools/wheels hypothesis",
        "hooks": {
            "guard": "OPTUNA_VERIF",
            "enable": "no source hooks exist: the harness instruments optuna from outside (rebinding module globals of optuna/storages/journal/_file.py, replacing lock objects, sys.settrace); checks import optuna from /repo's working tree via PYTHONPATH=/repo",
            "baseline_off_cmd": "cd /repo && /venv/bin/python -m pytest -ra -q -p no:cacheprovider --timeout=900 --continue-on-collection-errors",
            "source_commits": [],
            "add_only": True,
        },
        "engines": [
            {
                "name": "pbt",
                "path": "/verif/pbt",
                "serves_properties": sorted(BUILT),
                "kind_free_text": "Hypothesis 6.168 property-based testing: generated inputs / histories / schedules / crash points against explicit oracles, 16 seeded shards, shrunk replay files",
            }
        ],
        "checks": checks,
        "not_applicable": na,
        "notes": "Run `python pbt/run.py Cxx --tier quick|thorough`; VERIF_SEED selects the seed; VERIF_REPO=<dir> points the checks at another optuna tree (used for mutants).",
    }
    with open(os.path.join(VERIF, "MANIFEST.json"), "w") as f:
        json.dump(manifest, f, indent=1)
    print("checks:", [c["property_id"] for c in checks], "not_applicable:", len(na))


if __name__ == "__main__":
    main()
