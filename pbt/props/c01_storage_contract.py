"""C01  Every storage backend implements the one documented storage contract."""
from __future__ import annotations

import copy
import datetime
import math
import os
import warnings
from typing import Any

from hypothesis import strategies as st

from core import backends, gen
from core.model import DUP, FINISHED, KEYERROR, RUNTIME, VALUEERROR, ModelStorage, Raises, deep_eq, num_eq
from core.runner import Check, Ctx, HarnessError, Violation

ID = "C01"
LEVEL = "exploration"
RULE = (
    "Hypothesis generates a history of 5-60 BaseStorage calls by symbolic handles (create / "
    "delete study incl. duplicate and re-used names, study attrs, create trial plain or from a "
    "template carrying every field (all five states, +-inf values, NaN/inf intermediate values, "
    "NaN inside nested JSON attributes, every distribution class, microsecond timestamps), "
    "set_trial_param with compatible and incompatible distributions, state changes with values, "
    "intermediate values, trial attrs, writes after finish through every setter, reads of dead "
    "and never-allocated ids). The same history is applied to ModelStorage (an executable "
    "reading of the BaseStorage docstrings) and to eleven backend configurations (in-memory, "
    "SQLite, cached SQLite, journal file with both locks, journal redis, gRPC over in-memory / "
    "SQLite / cached SQLite / journal file / journal redis; the six direct configurations always, "
    "two of the five proxy configurations per history). Oracle: after every call the same return value and "
    "exception class as the model; every few steps and at the end the full readable state "
    "through every getter equals the model's under a NaN-aware deep equality; numbers are "
    "0,1,2,.. per study; ids of live objects are distinct. Non-trivial = the history has a "
    "study, a trial, a write and a compared read; distinct = distinct sequence of (op kind, "
    "outcome)."
)
ASSUMPTIONS = [
    "inputs on which the contract is silent are not generated: values of the wrong length, values with a non-finishing state, RUNNING->WAITING, writes to a WAITING trial other than its state, NaN objective values, empty study names, non-JSON-canonical attribute values, integers beyond 2^53, lone surrogates, re-setting a parameter the trial already has, a distribution incompatible with one only introduced by a template",
    "MySQL/PostgreSQL/real Redis are not available offline: SQLite and fakeredis stand in (as in optuna's own suite)",
    "backend-chosen timestamps are only required to be set/unset; template timestamps must be stored exactly",
]

KINDS = [k for k in backends.ALL_KINDS if k not in os.environ.get("VERIF_SKIP_KINDS", "").split(",")]

from core.storage_ops import *  # noqa: F401,F403
from core.storage_ops import Backend, build_template, case_history, compare_trial, full_dump_check, id_shadowed, internal_value, plan, FAMILIES, OTHER


def run_history(case: dict[str, Any], ctx: Ctx) -> None:
    import optuna
    from optuna.study import StudyDirection
    from optuna.trial import TrialState

    optuna.logging.set_verbosity(optuna.logging.ERROR)
    warnings.simplefilter("ignore")
    fac = backends.factory(ctx.tmpdir())
    trace: list[str] = []
    classes: set[str] = set()
    compared = 0
    try:
        gk = [k for k in KINDS if k.startswith("grpc:")]
        use = [k for k in KINDS if not k.startswith("grpc:")] + [gk[i % len(gk)] for i in case.get("grpc", [0, 1])[:2] if gk]
        bks = [Backend(k, fac.make(k)) for k in dict.fromkeys(use)]
        m = ModelStorage()

        def apply(opname: str, mf: Any, bf: Any, on_ok: Any = None, target: tuple[str, int] | None = None) -> tuple[str, Any]:
            """mf(): model call; bf(b): backend call. Returns the model outcome."""
            try:
                exp = ("ok", mf())
            except Raises as e:
                exp = ("exc", e.cls)
            for b in bks:
                if target is not None:
                    kind_, h = target
                    ids = b.sid if kind_ == "s" else b.tid
                    alive = [x.alive for x in m.studies] if kind_ == "s" else [m.trial_alive(t) for t in range(len(m.trials))]
                    # model already updated; a dead handle whose id now names a live object is
                    # not a question the contract answers for this backend
                    if h < len(ids) and not alive[h] and id_shadowed(ids, h, alive):
                        if on_ok is not None and exp[0] == "ok":
                            on_ok(b, None)
                        continue
                r = b.call(lambda b=b: bf(b))
                if on_ok is not None and exp[0] == "ok":
                    on_ok(b, r[1] if r[0] == "ok" else None)
                want = exp if on_ok is None else (exp[0], None if exp[0] == "ok" else exp[1])
                have = r if on_ok is None else (r[0], None if r[0] == "ok" else r[1])
                if not (have[0] == want[0] and deep_eq(have[1], want[1])):
                    raise Violation(
                        f"{opname}:result-differs",
                        f"{b.kind}: step {len(trace)} {opname} -> {str(r)[:300]}, contract {exp!r}; history so far {trace}",
                        case,
                    )
            trace.append(f"{opname}:{exp[1] if exp[0] == 'exc' else 'ok'}")
            return exp

        for step, o in enumerate(case["ops"]):
            kind = o[0]
            nt = len(m.trials)
            pl = plan(m, o, ctx)
            if pl is None:
                continue
            classes.update(pl.classes)
            on_ok = None
            if pl.creates == "study":
                on_ok = lambda b, i: b.sid.append(i if i is not None else -12345)
            elif pl.creates == "trial":
                on_ok = lambda b, i: b.tid.append(i if i is not None else -12345)
            apply(pl.name, pl.mf, pl.bf, on_ok=on_ok, target=pl.target)
            if step in case["dump_at"]:
                for b in bks:
                    compared += full_dump_check(m, b, case, f"after step {step} ({trace[-1] if trace else ''})")
            elif pl.target is not None and pl.target[0] == "t" and m.trial_alive(pl.target[1]):
                # cheap read-back of the written trial on every backend after every write
                h = pl.target[1]
                for b in bks:
                    handle_of = {b.tid[t]: t for t in range(len(m.trials)) if m.trial_alive(t)}
                    compare_trial(b.s.get_trial(b.tid[h]), m, h, b, handle_of, f"after step {step} ({trace[-1] if trace else ''}) get_trial", case)
                    compared += 1
                    if b.kind.startswith("grpc:") or b.kind == "cached_sqlite":
                        # the caching layers answer list reads from their own state: read the
                        # study's list through them after every write as well
                        st_h = m.trials[h].study
                        got_l = [(handle_of.get(x._trial_id), x.state.name, x.values) for x in b.s.get_all_trials(b.sid[st_h], deepcopy=False)]
                        exp_l = [(t_, m.trials[t_].state, m.trials[t_].values) for t_ in m.studies[st_h].trials]
                        compared += 1
                        if not deep_eq(got_l, exp_l):
                            raise Violation(
                                "state-differs:get_all_trials",
                                f"{b.kind} after step {step} ({trace[-1] if trace else ''}): get_all_trials(study {st_h}) -> (handle, state, values) {got_l}, contract {exp_l}; history {trace}",
                                case,
                            )
        for b in bks:
            compared += full_dump_check(m, b, case, "at the end")
        if len({tuple(st_.trials) for st_ in m.studies if st_.alive and st_.trials}) >= 2:
            classes.add("two-studies-with-trials")
        nontrivial = bool(m.studies) and bool(m.trials) and compared > 0 and any(t.split(":")[0].startswith("set_") for t in trace)
        ctx.case(fp=trace, nontrivial=nontrivial, classes=sorted(classes) + ["len%d" % (len(trace) // 10 * 10)], sample=case)
        ctx.event("compared_reads", compared)
        ctx.event("backend_histories", len(bks))
    finally:
        fac.release()


CHECKS = [
    Check("history", lambda tier: case_history(), run_history, {"quick": 240, "thorough": 8000}, budget_s={"quick": 150, "thorough": 2400}, shrink="ddmin:ops"),
]
