"""C20  Objects read from a study are snapshots: later writes never change them."""
from __future__ import annotations

import pickle
import warnings
from concurrent.futures import ThreadPoolExecutor
from typing import Any

from hypothesis import strategies as st

from core import backends
from core.runner import Check, Ctx, Violation

ID = "C20"
LEVEL = "exploration"
RULE = (
    "Hypothesis generates sequences of reads and writes on one study, each issued by one of two "
    "persistent threads: getters that hand out objects (Study.trials, get_trials(deepcopy F/T, "
    "state filters), best_trial, best_trials, user_attrs, system_attrs, FrozenTrial.params / "
    "user_attrs / distributions; storage-level get_trial, get_all_trials(deepcopy F/T), "
    "get_best_trial, get_all_studies, trial attribute and parameter getters) and every writer "
    "(ask, suggest_*, report, set_user_attr, tell, enqueue_trial, add_trial, study attributes, "
    "optimize() of one trial whose objective reads the study and then returns a value / NaN / None "
    "/ a non-number / a wrong arity / raises / prunes; "
    "storage-level setters), on in-memory, SQLite, cached SQLite, journal file, journal redis and "
    "gRPC-proxied storages. Every object handed out is pickled at read time; after every later "
    "write all live references are pickled again and must be byte-identical. Deep-copied results "
    "are then poisoned (keys added to their dictionaries) and a later read must not show the "
    "poison. Non-trivial = a (getter, later writer on the same trial / study) pair; distinct = "
    "distinct (getter, writer, backend) triple -- the evidence holds the coverage matrix."
)
ASSUMPTIONS = [
    "the statement names attribute dictionaries obtained from a *study*: Study.user_attrs / system_attrs (deep copies). The storage-level get_study_user_attrs / get_study_system_attrs of the in-memory and journal storages return the live dictionaries; those getter x setter cells are recorded as out of scope, not as violations",
    "results obtained WITHOUT deep copy are never mutated by the harness (the contract makes that undefined)",
]

KINDS = ["inmemory", "sqlite", "cached_sqlite", "journal_file", "journal_redis", "grpc:inmemory", "grpc:journal_file"]
READS = ["trials", "get_trials_nocopy", "get_trials_copy", "get_trials_states", "best_trial", "best_trials", "user_attrs", "system_attrs", "frozen_fields", "st_get_trial", "st_get_all_trials_nocopy", "st_get_all_trials_copy", "st_best", "st_studies", "st_trial_attrs", "st_trial_params"]
WRITES = ["ask", "suggest", "report", "attr", "tell", "tell", "enqueue", "add_trial", "study_attr", "st_param", "st_iv", "st_attr", "st_state", "st_constraints", "st_constraints", "optimize", "optimize"]
# what the objective of an "optimize" write does at its end (unusable values make optimize() fail the trial with a warning)
RETS = ["ok", "ok", "nan", "none", "str", "arity", "raise", "prune"]


@st.composite
def case_seq(draw: Any) -> dict[str, Any]:
    n = draw(st.integers(4, 30))
    ops = []
    for _ in range(n):
        if draw(st.integers(0, 2)) == 0:
            ops.append({"k": "read", "what": draw(st.sampled_from(READS)), "t": draw(st.integers(0, 9)), "thread": draw(st.integers(0, 1))})
        else:
            ops.append(
                {
                    "k": "write",
                    "what": draw(st.sampled_from(WRITES)),
                    "t": draw(st.integers(0, 9)),
                    "thread": draw(st.integers(0, 1)),
                    "name": draw(st.sampled_from(["x", "n", "c"])),
                    "step": draw(st.integers(0, 3)),
                    "state": draw(st.sampled_from(["COMPLETE", "COMPLETE", "PRUNED", "FAIL"])),
                    "v": float(draw(st.integers(-3, 3))),
                    "ret": draw(st.sampled_from(RETS)),
                }
            )
    n_obj = draw(st.sampled_from([1, 1, 2]))
    if n_obj == 1 and draw(st.integers(0, 3)) == 0:
        # a constrained history: the best-valued trial is infeasible, a feasible one exists
        # (Study.best_trial then takes its fallback path)
        def w(what: str, **kw: Any) -> dict[str, Any]:
            return {"k": "write", "what": what, "t": 0, "thread": draw(st.integers(0, 1)), "name": "x", "step": 0, "state": "COMPLETE", "v": 0.0, **kw}

        pre = [w("st_constraints", step=1), w("tell", v=-3.0), w("ask"), w("st_constraints", step=0), w("tell", v=2.0), {"k": "read", "what": "best_trial", "t": 0, "thread": 0}]
        ops = pre + ops
    return {"backend": draw(st.sampled_from(KINDS)), "n_obj": n_obj, "ops": [{"k": "write", "what": "ask", "t": 0, "thread": 0, "name": "x", "step": 0, "state": "COMPLETE", "v": 0.0}] + ops}


def run_seq(case: dict[str, Any], ctx: Ctx) -> None:
    import optuna
    from optuna.trial import TrialState

    optuna.logging.set_verbosity(optuna.logging.ERROR)
    warnings.simplefilter("ignore")
    fac = backends.factory(ctx.tmpdir())
    pools = [ThreadPoolExecutor(max_workers=1), ThreadPoolExecutor(max_workers=1)]
    try:
        storage = fac.make(case["backend"])
        n_obj = case["n_obj"]
        study = optuna.create_study(storage=storage, study_name="c20", directions=["minimize"] * n_obj, sampler=optuna.samplers.RandomSampler(seed=0))
        st_ = study._storage
        sid = study._study_id
        live: list[Any] = []  # Trial objects
        held: list[Any] = []  # (label, object, pickle at read time, deep?)
        pairs: set[tuple[str, str]] = set()
        poisoned_by: list[str] = []

        def running() -> list[Any]:
            return [t for t in live if st_.get_trial(t._trial_id).state == TrialState.RUNNING]

        def hold(label: str, obj: Any, deep: bool) -> None:
            if deep:
                # the caller owns a deep copy: modify it at once; no later read may show it
                for x in obj if isinstance(obj, list) else [obj]:
                    if isinstance(x, dict):
                        x["__poison__"] = 1
                    elif hasattr(x, "params"):
                        x.params["__poison__"] = 1
                        x.user_attrs["__poison__"] = 1
                        x.system_attrs["__poison__"] = 1
                        x.intermediate_values[999] = 1.0
                poisoned_by.append(label)
            held.append([label, obj, pickle.dumps(obj), deep])

        def check_poison(after: str) -> None:
            if not poisoned_by:
                return
            for x in st_.get_all_trials(sid, deepcopy=False) + study.get_trials(deepcopy=False):
                if "__poison__" in x.params or "__poison__" in x.user_attrs or "__poison__" in x.system_attrs or 999 in x.intermediate_values:
                    raise Violation("mutating-a-deep-copy-affected-the-study", f"backend={case['backend']}: after {after}, trial {x.number} shows a modification made to a deep-copied result of {sorted(set(poisoned_by))}", case)
            if "__poison__" in study.user_attrs or "__poison__" in study.system_attrs:
                raise Violation("mutating-a-deep-copy-affected-the-study", f"backend={case['backend']}: study attrs show the poison", case)

        def do_read(op: dict[str, Any]) -> None:
            w = op["what"]
            trials_now = st_.get_all_trials(sid, deepcopy=False)
            tid = trials_now[op["t"] % len(trials_now)]._trial_id if trials_now else None
            if w == "trials":
                hold(w, study.trials, True)
            elif w == "get_trials_nocopy":
                hold(w, study.get_trials(deepcopy=False), False)
            elif w == "get_trials_copy":
                hold(w, study.get_trials(deepcopy=True), True)
            elif w == "get_trials_states":
                hold(w, study.get_trials(deepcopy=False, states=(TrialState.RUNNING, TrialState.WAITING)), False)
            elif w == "best_trial" and n_obj == 1:
                try:
                    hold(w, study.best_trial, True)
                except ValueError:
                    pass
            elif w == "best_trials" and n_obj > 1:
                hold(w, study.best_trials, False)
            elif w == "user_attrs":
                hold(w, study.user_attrs, True)
            elif w == "system_attrs":
                hold(w, study.system_attrs, True)
            elif w == "frozen_fields" and tid is not None:
                ft = study.get_trials(deepcopy=False)[op["t"] % len(trials_now)]
                hold(w, [ft.params, ft.user_attrs, ft.system_attrs, ft.distributions, ft.intermediate_values], False)
            elif w == "st_get_trial" and tid is not None:
                hold(w, st_.get_trial(tid), False)
            elif w == "st_get_all_trials_nocopy":
                hold(w, st_.get_all_trials(sid, deepcopy=False), False)
            elif w == "st_get_all_trials_copy":
                hold(w, st_.get_all_trials(sid, deepcopy=True), True)
            elif w == "st_best" and n_obj == 1:
                try:
                    hold(w, st_.get_best_trial(sid), False)
                except ValueError:
                    pass
            elif w == "st_studies":
                hold(w, st_.get_all_studies(), False)
            elif w == "st_trial_attrs" and tid is not None:
                hold(w, [st_.get_trial_user_attrs(tid), st_.get_trial_system_attrs(tid)], False)
            elif w == "st_trial_params" and tid is not None:
                hold(w, st_.get_trial_params(tid), False)

        def do_write(op: dict[str, Any]) -> str | None:
            w = op["what"]
            run = running()
            if w == "ask":
                t = study.ask()
                live.append(t)
                return w
            if w == "enqueue":
                study.enqueue_trial({"x": 0.5}, user_attrs={"q": op["v"]})
                return w
            if w == "optimize":
                # one trial through Study.optimize; the objective reads the study (what samplers,
                # pruners and callbacks holding references do) before it ends in the generated way
                ret = op.get("ret", "ok")

                def objective(trial: Any) -> Any:
                    trial.suggest_float("x", 0, 1)
                    if n_obj == 1:
                        trial.report(op["v"], op["step"])
                    trial.set_user_attr("u", [op["v"]])
                    hold("in_objective:get_trials_nocopy", study.get_trials(deepcopy=False), False)
                    hold("in_objective:st_get_trial", st_.get_trial(trial._trial_id), False)
                    if ret == "nan":
                        return float("nan") if n_obj == 1 else [float("nan")] * n_obj
                    if ret == "none":
                        return None
                    if ret == "str":
                        return "not a number"
                    if ret == "arity":
                        return [1.0] * (n_obj + 1)
                    if ret == "raise":
                        raise ValueError("objective fails")
                    if ret == "prune":
                        raise optuna.TrialPruned()
                    return op["v"] if n_obj == 1 else [op["v"]] * n_obj

                study.optimize(objective, n_trials=1, catch=(ValueError,))
                return w + ":" + ret
            if w == "add_trial":
                study.add_trial(optuna.trial.create_trial(state=TrialState.COMPLETE, values=[op["v"]] * n_obj, params={"x": 0.25}, distributions={"x": optuna.distributions.FloatDistribution(0, 1)}, user_attrs={"a": [1, 2]}))
                return w
            if w == "study_attr":
                study.set_user_attr("k", [op["v"], {"n": op["step"]}])
                study.set_system_attr("s", op["v"])
                return w
            if not run:
                return None
            t = run[op["t"] % len(run)]
            if w == "suggest":
                if op["name"] == "x":
                    t.suggest_float("x", 0, 1)
                elif op["name"] == "n":
                    t.suggest_int("n", 0, 5)
                else:
                    t.suggest_categorical("c", ["a", "b"])
            elif w == "report":
                if n_obj > 1:
                    return None
                t.report(op["v"], op["step"])
            elif w == "attr":
                t.set_user_attr("u", {"v": op["v"], "l": [op["step"]]})
            elif w == "tell":
                state = getattr(TrialState, op["state"])
                if state == TrialState.COMPLETE:
                    study.tell(t, [op["v"]] * n_obj)
                else:
                    study.tell(t, state=state)
            elif w == "st_param":
                name = "p" + op["name"]
                if name in st_.get_trial(t._trial_id).params:
                    return None
                st_.set_trial_param(t._trial_id, name, 0.5, optuna.distributions.FloatDistribution(0, 1))
            elif w == "st_iv":
                st_.set_trial_intermediate_value(t._trial_id, 10 + op["step"], op["v"])
            elif w == "st_attr":
                st_.set_trial_user_attr(t._trial_id, "su", [op["v"]])
                st_.set_trial_system_attr(t._trial_id, "ss", {"v": op["v"]})
            elif w == "st_state":
                st_.set_trial_state_values(t._trial_id, TrialState.FAIL)
            elif w == "st_constraints":
                # what a sampler with constraints_func records (drives best_trial's fallback path)
                st_.set_trial_system_attr(t._trial_id, "constraints", [1.0] if op["step"] % 2 else [-1.0])
            return w

        for i, op in enumerate(case["ops"]):
            pool = pools[op["thread"]]
            if op["k"] == "read":
                pool.submit(do_read, op).result()
                check_poison(f"read {op['what']}")
                continue
            w = pool.submit(do_write, op).result()
            if w is None:
                continue
            for label, obj, blob, deep in held:
                pairs.add((label, w))
                now = pickle.dumps(obj)
                if now != blob:
                    raise Violation(
                        f"object-changed-after-write:{label}",
                        f"backend={case['backend']}: object obtained by {label} changed after {w} (op {i}, thread {op['thread']}): was {pickle.loads(blob)!r}, now {obj!r}",
                        case,
                    )
            check_poison(w)
        if not ctx.frozen:
            m = ctx.extra.setdefault("matrix", {})
            for g, w in pairs:
                key = f"{case['backend']}|{g}|{w}"
                m[key] = m.get(key, 0) + 1
        ctx.case(fp=sorted(f"{case['backend']}|{g}|{w}" for g, w in pairs), nontrivial=bool(pairs), classes=[case["backend"], "poisoned" if poisoned_by else "no-deep-copy-held"], sample=case)
    finally:
        for p in pools:
            p.shutdown(wait=True)
        fac.release()


CHECKS = [
    Check("sequence", lambda tier: case_seq(), run_seq, {"quick": 1600, "thorough": 40000}, budget_s={"quick": 150, "thorough": 2400}, shrink="ddmin:ops"),
]
