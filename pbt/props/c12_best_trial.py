"""C12  best_trial / best_value / best_trials are exactly the optimum of the history."""
from __future__ import annotations

import math
import warnings
from typing import Any

from hypothesis import strategies as st

from core import backends
from core.runner import Check, Ctx, Violation

ID = "C12"
LEVEL = "exploration"
RULE = (
    "Hypothesis generates histories of 0-25 trials written through add_trial and through "
    "ask/tell (all five states; values from a small lattice with duplicates plus +-inf; 1-4 "
    "objectives with mixed directions; constraint attributes absent, present on all or present "
    "on some trials, satisfied / violated / exactly 0.0) and applies each to seven backends "
    "(in-memory, SQLite, journal file, journal redis, gRPC over in-memory / SQLite / journal). "
    "After every step on the in-memory backend and at generated points on the others the "
    "answers of best_trial / best_value / best_params / best_trials and of the storage-level "
    "get_best_trial are compared with a brute-force scan of study.trials (O(n^2) dominance for "
    "the Pareto front). Ties are free. Non-trivial = the history contains a tie, an infinity or a "
    "constraint; distinct = distinct history."
)
ASSUMPTIONS = [
    "objective values are never NaN (optuna rejects them for COMPLETE trials)",
    "when the best-valued trial carries no constraint attribute the documented behaviour is 'undefined' for constrained studies: only clause (ii) of the oracle is demanded then",
    "MySQL/PostgreSQL are not available offline; SQLite stands for the RDB backend",
]

INF = math.inf
import os as _os

KINDS = [k for k in ["inmemory", "sqlite", "journal_file", "journal_redis", "grpc:inmemory", "grpc:sqlite", "grpc:journal_file"] if k not in _os.environ.get("VERIF_SKIP_KINDS", "").split(",")]

val = st.one_of(st.integers(-2, 2).map(float), st.integers(-2, 2).map(float), st.sampled_from([INF, -INF]), st.sampled_from([0.5, -0.5, 1e-300, 1e300]))
con = st.one_of(st.none(), st.lists(st.sampled_from([-1.0, 0.0, 0.0, 1.0, 0.5, -INF, INF]), min_size=1, max_size=2))


@st.composite
def case_history(draw: Any) -> dict[str, Any]:
    n_obj = draw(st.sampled_from([1, 1, 1, 2, 2, 3, 4]))
    dirs = draw(st.lists(st.sampled_from(["minimize", "maximize"]), min_size=n_obj, max_size=n_obj))
    cmode = draw(st.sampled_from(["none", "none", "all", "some"]))
    n = draw(st.integers(0, 25))
    trials = []
    for _ in range(n):
        state = draw(st.sampled_from(["COMPLETE", "COMPLETE", "COMPLETE", "COMPLETE", "PRUNED", "FAIL", "RUNNING", "WAITING"]))
        c = None
        if cmode == "all":
            c = draw(con.filter(lambda x: x is not None))
        elif cmode == "some":
            c = draw(con)
        trials.append(
            {
                "state": state,
                "values": draw(st.lists(val, min_size=n_obj, max_size=n_obj)),
                "constraints": c,
                "via": draw(st.sampled_from(["add", "asktell"])),
                "pruned_value": draw(st.one_of(st.none(), val)),
            }
        )
    return {"directions": dirs, "trials": trials, "probe_at": draw(st.lists(st.integers(0, 25), max_size=3))}


def _better(a: float, b: float, d: str) -> bool:
    return a < b if d == "minimize" else a > b


def _feasible(t: Any) -> bool:
    c = t.system_attrs.get("constraints")
    return c is not None and all(x <= 0.0 for x in c)


def _dominates(a: list[float], b: list[float], dirs: list[str]) -> bool:
    na = [x if d == "minimize" else -x for x, d in zip(a, dirs)]
    nb = [x if d == "minimize" else -x for x, d in zip(b, dirs)]
    return all(x <= y for x, y in zip(na, nb)) and any(x < y for x, y in zip(na, nb))


def check_study(study: Any, dirs: list[str], case: Any, kind: str, where: str) -> None:
    import optuna
    from optuna.trial import TrialState

    trials = study.get_trials(deepcopy=False)
    nums = [t.number for t in trials]
    if nums != list(range(len(trials))):
        raise Violation("trials-not-ordered-by-number", f"{kind} {where}: {nums}", case)
    comp = [t for t in trials if t.state == TrialState.COMPLETE]
    desc = [(t.number, t.state.name, t.values, t.system_attrs.get("constraints")) for t in trials]
    if len(dirs) == 1:
        d = dirs[0]
        try:
            bt = study.best_trial
        except ValueError:
            bt = None
        # storage-level answer
        try:
            sbt = study._storage.get_best_trial(study._study_id)
        except ValueError:
            sbt = None
        if not comp:
            if bt is not None or sbt is not None:
                raise Violation("best_trial-without-complete-trial", f"{kind} {where}: {bt} {desc}", case)
            return
        if sbt is None:
            raise Violation("storage-best_trial-missing", f"{kind} {where}: ValueError although COMPLETE trials exist {desc}", case)
        if sbt.state != TrialState.COMPLETE or any(_better(t.value, sbt.value, d) for t in comp):
            raise Violation(
                "storage-best_trial-not-optimal",
                f"{kind} {where} direction={d}: storage.get_best_trial -> number {sbt.number} value {sbt.value} state {sbt.state.name}; trials {desc}",
                case,
            )
        ref = next(t for t in comp if t.number == sbt.number)
        if ref.values != sbt.values:
            raise Violation("storage-best_trial-stale-copy", f"{kind} {where}: {sbt.values} vs {ref.values}", case)
        feas = [t for t in comp if _feasible(t)]
        if bt is None:
            # allowed only when the best-valued trial is infeasible and no feasible trial exists
            if feas or sbt.system_attrs.get("constraints") is None:
                raise Violation("best_trial-raises-although-eligible-trial-exists", f"{kind} {where}: {desc}", case)
            return
        if bt.state != TrialState.COMPLETE:
            raise Violation("best_trial-not-complete", f"{kind} {where}: {bt.number} {bt.state}", case)
        if bt.system_attrs.get("constraints") is not None:
            if feas and not _feasible(bt):
                raise Violation("best_trial-infeasible-although-feasible-exists", f"{kind} {where} direction={d}: best_trial number {bt.number} constraints {bt.system_attrs.get('constraints')}; trials {desc}", case)
            if _feasible(bt) and any(_better(t.value, bt.value, d) for t in feas):
                raise Violation("best_trial-not-optimal-among-feasible", f"{kind} {where} direction={d}: best_trial number {bt.number} value {bt.value}; trials {desc}", case)
            if not feas and any(_better(t.value, bt.value, d) for t in comp):
                raise Violation("best_trial-not-optimal", f"{kind} {where} direction={d}: best_trial number {bt.number} value {bt.value}; trials {desc}", case)
        else:
            if any(_better(t.value, bt.value, d) for t in comp):
                raise Violation("best_trial-not-optimal", f"{kind} {where} direction={d}: best_trial number {bt.number} value {bt.value}; trials {desc}", case)
        me = next(t for t in comp if t.number == bt.number)
        if study.best_value != bt.value or study.best_params != me.params or bt.values != me.values:
            raise Violation("best_value-or-params-disagree", f"{kind} {where}: {study.best_value} {bt.value}", case)
        # Study.best_trials is documented for every study ("trials located at the Pareto front:
        # no trial dominates them"): with one objective that is every eligible trial tied at the
        # optimum
        constrained = any("constraints" in t.system_attrs for t in trials)
        pool = [t for t in comp if _feasible(t)] if constrained else comp
        exp1 = sorted(t.number for t in pool if not any(_better(o.value, t.value, d) for o in pool))
        got1 = sorted(t.number for t in study.best_trials)
        if got1 != exp1:
            raise Violation("best_trials-not-the-pareto-front", f"{kind} {where} direction={d} (single objective) constrained={constrained}: got {got1}, all trials tied at the optimum {exp1}; trials {desc}", case)
    else:
        got = sorted(t.number for t in study.best_trials)
        constrained = any("constraints" in t.system_attrs for t in trials)
        pool = [t for t in comp if _feasible(t)] if constrained else comp
        exp = sorted(t.number for t in pool if not any(_dominates(o.values, t.values, dirs) for o in pool))
        if got != exp:
            raise Violation(
                "best_trials-not-the-pareto-front",
                f"{kind} {where} directions={dirs} constrained={constrained}: got {got}, brute force {exp}; trials {desc}",
                case,
            )
        if len(set(got)) != len(got):
            raise Violation("best_trials-duplicates", f"{got}", case)


def apply_trial(study: Any, spec: dict[str, Any], n_obj: int) -> None:
    import optuna
    from optuna.trial import TrialState

    state = getattr(TrialState, spec["state"])
    sysattrs = {} if spec["constraints"] is None else {"constraints": list(spec["constraints"])}
    if spec["via"] == "add" or state == TrialState.WAITING:
        if state == TrialState.WAITING:
            study.enqueue_trial({}, user_attrs={"q": 1})
            return
        vals = list(spec["values"]) if state == TrialState.COMPLETE else None
        if state == TrialState.PRUNED and n_obj == 1 and spec["pruned_value"] is not None:
            vals = [spec["pruned_value"]]
        ft = optuna.trial.create_trial(state=state, values=vals, system_attrs=sysattrs)
        study.add_trial(ft)
        return
    t = optuna.trial.Trial(study, study._storage.create_new_trial(study._study_id))
    if spec["constraints"] is not None:
        study._storage.set_trial_system_attr(t._trial_id, "constraints", list(spec["constraints"]))
    if state == TrialState.COMPLETE:
        study.tell(t, list(spec["values"]))
    elif state == TrialState.PRUNED:
        if n_obj == 1 and spec["pruned_value"] is not None:
            t.report(spec["pruned_value"], 0)
        study.tell(t, state=TrialState.PRUNED)
    elif state == TrialState.FAIL:
        study.tell(t, state=TrialState.FAIL)
    # RUNNING: left as is


def run_history(case: dict[str, Any], ctx: Ctx) -> None:
    import optuna

    optuna.logging.set_verbosity(optuna.logging.ERROR)
    warnings.simplefilter("ignore")
    dirs = case["directions"]
    trials = case["trials"]
    comp = [t for t in trials if t["state"] == "COMPLETE"]
    vals = [tuple(t["values"]) for t in comp]
    feats = []
    if len(set(vals)) < len(vals):
        feats.append("tie")
    if any(math.isinf(x) for v in vals for x in v):
        feats.append("infinity")
    if any(t["constraints"] is not None for t in trials):
        feats.append("constraint")
    ctx.case(fp=case, nontrivial=bool(feats) and len(comp) >= 2, classes=feats + [f"obj{len(dirs)}", "n%d" % min(len(trials) // 5 * 5, 25)], sample=case)
    fac = backends.factory(ctx.tmpdir())
    try:
        for kind in KINDS:
            storage = fac.make(kind)
            study = optuna.create_study(storage=storage, study_name="c12", directions=dirs, sampler=optuna.samplers.RandomSampler(seed=0))
            check_study(study, dirs, case, kind, "empty study")
            for i, spec in enumerate(trials):
                apply_trial(study, spec, len(dirs))
                if kind == "inmemory" or i in case["probe_at"]:
                    check_study(study, dirs, case, kind, f"after trial {i}")
            check_study(study, dirs, case, kind, "end")
            ctx.event("backend_runs")
    finally:
        fac.release()


CHECKS = [
    Check("history", lambda tier: case_history(), run_history, {"quick": 480, "thorough": 16000}, budget_s={"quick": 150, "thorough": 1800}),
]
