"""C08  Client-side trial caches never serve a view that differs from the backend."""
from __future__ import annotations

import warnings
from typing import Any

from hypothesis import strategies as st

from core import backends
from core.model import KEYERROR, ModelStorage, deep_eq
from core.runner import Check, Ctx, Enum, Violation
from core.storage_ops import Backend, model_outcome, op, plan

ID = "C08"
LEVEL = "exploration"
RULE = (
    "Hypothesis generates interleaved histories of five clients on one SQLite database: two "
    "_CachedStorage objects (own RDBStorage each), one raw RDBStorage, a GrpcStorageProxy in "
    "front of a raw RDBStorage and one in front of a server-side _CachedStorage; every step is "
    "a write by a chosen client (the C01 op generator: create/delete study, trials plain or "
    "from finished / running / waiting templates, params, attrs, intermediate values, state "
    "changes that finish trials out of creation order, several studies sharing the id space) "
    "followed by reads through generated clients. Oracle: immediately after each read the same "
    "question put to a fresh raw RDBStorage on the same file gives an equal answer "
    "(get_all_trials for states in {None, each single state, (COMPLETE, PRUNED)} ordered by "
    "number, get_trial, number->id lookup, study name and directions, KeyError for unknown "
    "objects). Non-trivial = a read through a cache after a write by a different client in a "
    "history with a trial finished out of creation order or a finished template; distinct = "
    "distinct (writer/reader sequence, outcomes)."
)
ASSUMPTIONS = [
    "SQLite stands for the RDB backend (MySQL/PostgreSQL are not available offline)",
    "thread interleavings inside a cached client: the read-related races are enumerated here with the C03 scheduler machinery (sub-check `threads`); arbitrary generated thread scenarios are C03's",
]

CLIENTS = ["cacheA", "cacheB", "raw", "grpc->raw", "grpc->cache"]
STATE_FILTERS = [None, ("COMPLETE",), ("RUNNING",), ("WAITING",), ("PRUNED",), ("FAIL",), ("COMPLETE", "PRUNED")]


@st.composite
def case_hist(draw: Any) -> dict[str, Any]:
    n = draw(st.integers(10, 50))
    steps = []
    for _ in range(n):
        o = draw(op())
        # deletes are rare here (each one activates the recorded finding for the clients that
        # had read the study) and state changes frequent (finishing trials out of creation
        # order is what the watermark / unfinished-set logic is sensitive to)
        if o[0] == "delete_study" and draw(st.integers(0, 4)) > 0:
            o = ["create_trial", o[1]]
        elif o[0] in ("study_attr", "tattr", "iv", "param", "create_study") and draw(st.booleans()):
            o = ["state", draw(st.integers(0, 40)), draw(st.sampled_from(["COMPLETE", "PRUNED", "FAIL", "RUNNING"])), draw(st.booleans()), [1.0, 2.0, 3.0]]
        steps.append(
            {
                "w": draw(st.integers(0, 4)),
                "op": o,
                "readers": draw(st.lists(st.integers(0, 4), max_size=3, unique=True)),
                "filter": draw(st.integers(0, len(STATE_FILTERS) - 1)),
                "pick": draw(st.integers(0, 40)),
            }
        )
    return {"steps": steps}


def norm(t: Any) -> dict[str, Any]:
    return {
        "id": t._trial_id,
        "number": t.number,
        "state": t.state.name,
        "values": t.values,
        "params": t.params,
        "dists": {k: repr(v) for k, v in t.distributions.items()},
        "ua": t.user_attrs,
        "sa": t.system_attrs,
        "iv": dict(sorted(t.intermediate_values.items())),
        "start": t.datetime_start,
        "complete": t.datetime_complete,
    }


def run_hist(case: dict[str, Any], ctx: Ctx) -> None:
    import optuna
    from optuna.trial import TrialState

    optuna.logging.set_verbosity(optuna.logging.ERROR)
    warnings.simplefilter("ignore")
    fac = backends.factory(ctx.tmpdir())
    try:
        path = fac.new_sqlite_file()
        raw = fac.open_rdb(path)
        clients = {
            "cacheA": optuna.storages._CachedStorage(fac.open_rdb(path)),
            "cacheB": optuna.storages._CachedStorage(fac.open_rdb(path)),
            "raw": fac.open_rdb(path),
            "grpc->raw": fac.grpc_over(fac.open_rdb(path)),
            "grpc->cache": fac.grpc_over(optuna.storages._CachedStorage(fac.open_rdb(path))),
        }
        oracle = Backend("oracle", raw)
        m = ModelStorage()
        bk = {n: Backend(n, s) for n, s in clients.items()}
        for b in bk.values():
            b.sid, b.tid = oracle.sid, oracle.tid  # one id table: one database
        # ids a client may hold stale state for because ANOTHER client deleted the study
        tainted_s: dict[str, set[int]] = {n: set() for n in clients}
        tainted_t: dict[str, set[int]] = {n: set() for n in clients}
        seen_s: dict[str, set[int]] = {n: set() for n in clients}
        seen_t: dict[str, set[int]] = {n: set() for n in clients}
        trace: list[str] = []
        last_writer: str | None = None
        cross_reads = 0
        compared = 0
        out_of_order = False
        finished_template = False
        finished_order: list[int] = []

        def stale(name: str, sid: int | None = None, tid: int | None = None) -> bool:
            return (sid is not None and sid in tainted_s[name]) or (tid is not None and tid in tainted_t[name])

        def differ(name: str, what: str, got: Any, exp: Any, sid: int | None = None, tid: int | None = None) -> None:
            if stale(name, sid, tid) and ctx.known("cache-keeps-study-deleted-by-another-client", f"{name} {what}"):
                return
            sig = "cache-keeps-study-deleted-by-another-client" if stale(name, sid, tid) else f"stale-read:{what}"
            raise Violation(sig, f"client {name} {what}: through the client {str(got)[:600]}, raw view {str(exp)[:600]}; history {trace}", case)

        for step in case["steps"]:
            wname = CLIENTS[step["w"]]
            b = bk[wname]
            pl = plan(m, step["op"], ctx)
            if pl is not None:
                target_sid = target_tid = None
                if pl.target is not None:
                    k_, h = pl.target
                    ids = oracle.sid if k_ == "s" else oracle.tid
                    if h < len(ids):
                        target_sid, target_tid = (ids[h], None) if k_ == "s" else (None, ids[h])
                # a dead handle whose id was re-used by a live object: not a question for this check
                alive_s = [x.alive for x in m.studies]
                alive_t = [m.trial_alive(t) for t in range(len(m.trials))]
                shadow = False
                if pl.target is not None:
                    k_, h = pl.target
                    ids, alive = (oracle.sid, alive_s) if k_ == "s" else (oracle.tid, alive_t)
                    shadow = h < len(ids) and not alive[h] and any(ids[j] == ids[h] and j != h and alive[j] for j in range(len(ids)))
                if shadow:
                    continue
                was_alive_trials = [t for t in range(len(m.trials)) if m.trial_alive(t)]
                exp = model_outcome(pl)
                r = b.call(lambda: pl.bf(b))
                if (exp[0] == "ok") != (r[0] == "ok") or (exp[0] == "exc" and r[1] != exp[1]):
                    if stale(wname, target_sid, target_tid) and ctx.known("cache-keeps-study-deleted-by-another-client", f"{wname} {pl.name}"):
                        return  # id tables can no longer be trusted for this history
                    raise Violation("write-outcome-differs-from-contract", f"client {wname} {pl.name} -> {str(r)[:300]}, contract {exp}; history {trace}", case)
                trace.append(f"{wname}:{pl.name}:{exp[1] if exp[0] == 'exc' else 'ok'}")
                if exp[0] == "ok":
                    last_writer = wname
                    if pl.creates == "study":
                        oracle.sid.append(r[1])
                        seen_s[wname].add(r[1])
                    elif pl.creates == "trial":
                        oracle.tid.append(r[1])
                        seen_t[wname].add(r[1])
                        if pl.target is not None and pl.target[0] == "s" and pl.target[1] < len(oracle.sid):
                            # creating a trial through a cached client puts the study into that
                            # client's cache just as reading it does
                            seen_s[wname].add(oracle.sid[pl.target[1]])
                        tpl = step["op"][2] if step["op"][0] == "create_trial_tmpl" else None
                        if tpl is not None and tpl["state"] in ("COMPLETE", "PRUNED", "FAIL"):
                            finished_template = True
                    elif pl.name == "delete_study":
                        sid = oracle.sid[pl.target[1]]
                        dead_t = {oracle.tid[t] for t in was_alive_trials if not m.trial_alive(t)}
                        for n in clients:
                            if n != wname and n != "raw":
                                if sid in seen_s[n]:
                                    tainted_s[n].add(sid)
                                tainted_t[n] |= dead_t & seen_t[n]
                    elif pl.name == "set_trial_state_values" and step["op"][2] in ("COMPLETE", "PRUNED", "FAIL") and r[1] is True:
                        h = pl.target[1]
                        if any(x > h for x in finished_order):
                            out_of_order = True
                        finished_order.append(h)
            # ---- reads through generated clients, each compared with the raw view right away
            live_s = [i for i, s_ in enumerate(m.studies) if s_.alive]
            for ri in step["readers"]:
                rname = CLIENTS[ri]
                c = bk[rname]
                if rname != "raw" and last_writer is not None and last_writer != rname:
                    cross_reads += 1
                if not m.studies:
                    continue
                hs = step["pick"] % len(m.studies)
                sid = oracle.sid[hs]
                alive_s = [x.alive for x in m.studies]
                if not alive_s[hs] and any(oracle.sid[j] == sid and j != hs and alive_s[j] for j in range(len(oracle.sid))):
                    continue
                flt = STATE_FILTERS[step["filter"]]
                kw = {} if flt is None else {"states": tuple(getattr(TrialState, x) for x in flt)}
                got = c.call(lambda: [norm(t) for t in c.s.get_all_trials(sid, deepcopy=False, **kw)])
                exp = oracle.call(lambda: [norm(t) for t in raw.get_all_trials(sid, deepcopy=False, **kw)])
                seen_s[rname].add(sid)
                if got[0] == "ok":
                    # a cached client fetches every trial of the study, whatever the state filter
                    seen_t[rname] |= {t["id"] for t in got[1]} | {oracle.tid[t] for t in m.studies[hs].trials if t < len(oracle.tid)}
                compared += 1
                if not (got[0] == exp[0] and deep_eq(got[1], exp[1])):
                    differ(rname, f"get_all_trials(study id {sid}, states={flt})", got, exp, sid=sid)
                    continue
                if got[0] == "ok" and [t["number"] for t in got[1]] != sorted(t["number"] for t in got[1]):
                    raise Violation("trials-not-ordered-by-number", f"client {rname}: {[t['number'] for t in got[1]]}", case)
                for fn in ("get_study_name_from_id", "get_study_directions", "get_n_trials"):
                    g = c.call(lambda fn=fn: getattr(c.s, fn)(sid))
                    e = oracle.call(lambda fn=fn: getattr(raw, fn)(sid))
                    compared += 1
                    if not (g[0] == e[0] and (g[1] == e[1])):
                        differ(rname, f"{fn}(study id {sid})", g, e, sid=sid)
                if m.trials:
                    ht = step["pick"] % len(m.trials)
                    tid = oracle.tid[ht]
                    alive_t = [m.trial_alive(t) for t in range(len(m.trials))]
                    if not alive_t[ht] and any(oracle.tid[j] == tid and j != ht and alive_t[j] for j in range(len(oracle.tid))):
                        continue
                    g = c.call(lambda: norm(c.s.get_trial(tid)))
                    e = oracle.call(lambda: norm(raw.get_trial(tid)))
                    compared += 1
                    if not (g[0] == e[0] and deep_eq(g[1], e[1])):
                        differ(rname, f"get_trial(id {tid})", g, e, tid=tid, sid=oracle.sid[m.trials[ht].study])
                    num = m.trials[ht].number
                    tsid = oracle.sid[m.trials[ht].study]
                    g = c.call(lambda: c.s.get_trial_id_from_study_id_trial_number(tsid, num))
                    e = oracle.call(lambda: raw.get_trial_id_from_study_id_trial_number(tsid, num))
                    compared += 1
                    if g != e:
                        differ(rname, f"get_trial_id_from_study_id_trial_number({tsid}, {num})", g, e, sid=tsid, tid=tid)
        ctx.case(
            fp=trace,
            nontrivial=cross_reads > 0 and (out_of_order or finished_template),
            classes=["out-of-order-finish" if out_of_order else "in-order", "finished-template" if finished_template else "no-finished-template", "cross-client-read" if cross_reads else "no-cross-read", "len%d" % (len(trace) // 10 * 10)],
            sample=case,
        )
        ctx.event("compared_reads", compared)
    finally:
        fac.release()


# ---- (b) threads inside one cached client (and an external raw writer) under the scheduler ------


def enum_threads(ctx: Ctx, tier: str, shard: int, nshards: int) -> None:
    """The read-related classic races of the C03 machinery on the cached layouts: each read
    through the cache must equal the database at some instant between its invocation and its
    response (linearizability against ModelStorage), for every single-preemption schedule
    (quick tier: a stratified sample) of threads sharing one _CachedStorage, of separate cached
    clients, and of cached threads plus an external raw writer."""
    from props import c03_linearizable as c03

    wanted = ("create-from-template/read", "create+write/read", "finish, refresh / single read", "refresh / create / single read", "snapshot / finish old, create new", "snapshot / ordered writes to two trials")
    jobs = [(lay, name, pre, workers) for lay in ("threads:cached_sqlite", "mixed:cached_sqlite", "procs:cached_sqlite") for (name, pre, workers) in c03.CLASSIC if name in wanted]
    for i, (lay, name, pre, workers) in enumerate(jobs):
        if i % nshards != shard:
            continue
        ctx.sub = "threads"
        # (threads sharing one cache object: the windows are single lines inside the cache's own
        # critical sections, so every yield point is a preemption point there)
        c03.run_scenario({"layout": lay, "pre": pre, "workers": workers, "multi": [], "salt": i, "every_line": True}, ctx)
        ctx.event("threads:" + name)
    ctx.exhaustive_parts.append("six read-related races on three cached layouts under the line-level scheduler (single-preemption schedules; quick tier: every yield point on threads:cached_sqlite, every SQL-statement / commit / lock-release boundary plus 8 sampled switch points on the other two)")


def _replay_threads(case: dict[str, Any], ctx: Ctx) -> None:
    from props import c03_linearizable as c03

    c03.run_scenario(case, ctx)


CHECKS = [
    Check("history", lambda tier: case_hist(), run_hist, {"quick": 480, "thorough": 16000}, budget_s={"quick": 150, "thorough": 2400}, shrink="ddmin:steps"),
]
ENUMS = [Enum("threads", enum_threads)]
REPLAY = {"threads": _replay_threads}
