"""C16  Pruners never prune what their contract protects."""
from __future__ import annotations

import json
import itertools
import math
import warnings
from typing import Any

from hypothesis import strategies as st

from core.runner import Check, Ctx, Enum, Violation

ID = "C16"
LEVEL = "exploration"
RULE = (
    "Hypothesis generates a pruner configuration (Nop, Median, Percentile, SuccessiveHalving, "
    "Hyperband, Threshold, Patient wrapping any of them or nothing; all numeric parameters "
    "generated), a direction, and 1-8 training curves (steps with gaps and out-of-order "
    "reports, values from a small range incl. NaN and ties, final outcome complete/fail, obey "
    "or ignore a prune request) that are run through ask/report/should_prune/tell in a "
    "generated interleaving so RUNNING, PRUNED, FAIL and COMPLETE trials coexist; one trial may "
    "be a champion whose every report beats everything reported so far by others. After each "
    "report the decision is compared with the protections derived from the docstrings (warm-up, "
    "start-up trials, check interval, n_min_trials, first rung, patience window, champion) and, "
    "for Threshold/Nop, with an exact oracle. The same program replayed in a storage whose "
    "trial ids are offset must give identical decisions and Hyperband brackets. Non-trivial = "
    "a should_prune call made when some other trial has already reported at that step; "
    "distinct = distinct (pruner, curves, interleaving). _is_first_in_interval_step and "
    "_is_trial_promotable_to_next_rung are enumerated exhaustively over small ranges."
)
ASSUMPTIONS = [
    "single-objective studies, in-memory storage (storage independence is C09's subject)",
    "'finished start-up trials' is read as trials in any finished state (COMPLETE/PRUNED/FAIL): the weakest reading of the docstring, so no alarm if only COMPLETE ones are counted",
    "n_min_trials counts reports at the step from all trials including the current one (weakest reading)",
    "the champion reports its steps in increasing order and never reports NaN",
]

NAN = float("nan")


# ------------------------------------------------------------------------------------------
# generators
# ------------------------------------------------------------------------------------------


def base_pruner(allow_hb: bool = True) -> st.SearchStrategy[dict[str, Any]]:
    gate = dict(
        n_startup=st.integers(0, 5),
        n_warmup=st.integers(0, 6),
        interval=st.integers(1, 4),
        n_min_trials=st.integers(1, 3),
    )
    opts = [
        st.fixed_dictionaries({"kind": st.just("median"), **gate}),
        st.fixed_dictionaries(
            {"kind": st.just("percentile"), "percentile": st.one_of(st.sampled_from([0.0, 25.0, 50.0, 75.0, 100.0]), st.floats(0, 100)), **gate}
        ),
        st.fixed_dictionaries(
            {
                "kind": st.just("sha"),
                "min_resource": st.one_of(st.just("auto"), st.integers(1, 4)),
                "eta": st.integers(2, 4),
                "rate": st.integers(0, 2),
                "bootstrap": st.sampled_from([0, 0, 0, 1, 2]),
            }
        ).map(lambda d: {**d, "bootstrap": 0} if d["min_resource"] == "auto" else d),
        st.fixed_dictionaries(
            {
                "kind": st.just("threshold"),
                "lower": st.one_of(st.none(), st.integers(-8, 8).map(float)),
                "upper": st.one_of(st.none(), st.integers(-8, 8).map(float)),
                "n_warmup": st.integers(0, 6),
                "interval": st.integers(1, 4),
            }
        ).map(_fix_threshold),
    ]
    if allow_hb:
        opts.append(
            st.fixed_dictionaries(
                {
                    "kind": st.just("hyperband"),
                    "min_resource": st.integers(1, 3),
                    "max_resource": st.one_of(st.just("auto"), st.integers(3, 30)),
                    "eta": st.integers(2, 4),
                }
            )
        )
    return st.one_of(opts + opts + [st.just({"kind": "nop"})])


def _fix_threshold(d: dict[str, Any]) -> dict[str, Any]:
    lo, up = d["lower"], d["upper"]
    if lo is None and up is None:
        d = {**d, "upper": 3.0}
    elif lo is not None and up is not None and lo > up:
        d = {**d, "lower": up, "upper": lo}
    return d


def pruner_spec() -> st.SearchStrategy[dict[str, Any]]:
    b = base_pruner()
    pat = st.fixed_dictionaries(
        {
            "kind": st.just("patient"),
            "wrapped": st.one_of(st.none(), base_pruner(allow_hb=False)),
            "patience": st.integers(0, 4),
            "min_delta": st.sampled_from([0.0, 0.0, 0.5, 1.0, 2.0]),
        }
    )
    return st.one_of(b, b, b, pat)


# "WINF" = the infinity of the worse side (a diverged loss): +inf when minimising, -inf when maximising
value = st.one_of(st.integers(-10, 10).map(float), st.integers(-3, 3).map(float), st.just(NAN), st.floats(-10, 10, allow_nan=False), st.integers(-10, 10).map(float), st.just("WINF"))


@st.composite
def curve(draw: Any) -> dict[str, Any]:
    n = draw(st.integers(0, 8))
    mode = draw(st.sampled_from(["dense", "dense", "gaps", "shuffled"]))
    if mode == "dense":
        steps = list(range(n))
    elif mode == "gaps":
        steps = sorted(draw(st.lists(st.integers(0, 40), min_size=n, max_size=n, unique=True)))
    else:
        steps = draw(st.lists(st.integers(0, 12), min_size=n, max_size=n))
    vals = draw(st.lists(value, min_size=n, max_size=n))
    return {
        "reports": [[s, v] for s, v in zip(steps, vals)],
        "end": draw(st.sampled_from(["complete", "complete", "complete", "fail", "running"])),
        "final": draw(st.integers(-10, 10).map(float)),
        "obey": draw(st.booleans()),
    }


@st.composite
def case_study(draw: Any) -> dict[str, Any]:
    n = draw(st.integers(1, 8))
    curves = draw(st.lists(curve(), min_size=n, max_size=n))
    champion = draw(st.one_of(st.none(), st.integers(0, n - 1)))
    if champion is not None:
        c = curves[champion]
        k = max(len(c["reports"]), draw(st.integers(1, 6)))
        steps = sorted(draw(st.lists(st.integers(0, 40), min_size=k, max_size=k, unique=True))) if draw(st.booleans()) else list(range(k))
        # values are filled in at run time relative to the direction: rank only
        c["reports"] = [[s, float(draw(st.integers(0, 5)))] for s in steps]
        c["obey"] = True
    # interleaving: each trial needs len(reports)+2 turns (ask, reports..., finish)
    turns = []
    for i, c in enumerate(curves):
        turns += [i] * (len(c["reports"]) + 2)
    order = draw(st.permutations(turns)) if draw(st.integers(0, 3)) else turns
    return {
        "pruner": draw(pruner_spec()),
        "direction": draw(st.sampled_from(["minimize", "maximize"])),
        "name": draw(st.sampled_from(["s", "study-a", "hb-study", "x1", "another name"])),
        "curves": curves,
        "champion": champion,
        "order": list(order),
        "offset": draw(st.integers(1, 4)),
    }


# ------------------------------------------------------------------------------------------
# running
# ------------------------------------------------------------------------------------------


def make_pruner(s: dict[str, Any]) -> Any:
    import optuna

    k = s["kind"]
    with warnings.catch_warnings():
        warnings.simplefilter("ignore")
        if k == "nop":
            return optuna.pruners.NopPruner()
        if k == "median":
            return optuna.pruners.MedianPruner(s["n_startup"], s["n_warmup"], s["interval"], n_min_trials=s["n_min_trials"])
        if k == "percentile":
            return optuna.pruners.PercentilePruner(s["percentile"], s["n_startup"], s["n_warmup"], s["interval"], n_min_trials=s["n_min_trials"])
        if k == "sha":
            return optuna.pruners.SuccessiveHalvingPruner(s["min_resource"], s["eta"], s["rate"], s["bootstrap"])
        if k == "hyperband":
            return optuna.pruners.HyperbandPruner(s["min_resource"], s["max_resource"], s["eta"])
        if k == "threshold":
            return optuna.pruners.ThresholdPruner(s["lower"], s["upper"], s["n_warmup"], s["interval"])
        if k == "patient":
            w = make_pruner(s["wrapped"]) if s["wrapped"] is not None else None
            return optuna.pruners.PatientPruner(w, s["patience"], s["min_delta"])
    raise ValueError(k)


def _check_due(prev_steps: list[int], step: int, warmup: int, interval: int) -> bool:
    """Docstring semantics: checks are due at warmup + k*interval; a check for which no value
    was reported is postponed to the next reported step."""
    if step < warmup:
        return False
    prev = max([s for s in prev_steps if s != step], default=-1)
    c = warmup + ((step - warmup) // interval) * interval  # latest check point <= step
    return prev < c


class Mirror:
    """The harness's own record of what has been reported / finished so far."""

    def __init__(self, n: int) -> None:
        self.reports: list[dict[int, float]] = [dict() for _ in range(n)]
        self.state = ["new"] * n

    def n_finished(self) -> int:
        return sum(s in ("complete", "pruned", "fail") for s in self.state)

    def n_complete_with_steps(self) -> int:
        return sum(1 for s, r in zip(self.state, self.reports) if s == "complete" and r)


def protections(spec: dict[str, Any], m: Mirror, i: int, direction: str, is_champion: bool) -> list[str]:
    """Reasons why should_prune() must be False now for trial i (empty = contract silent)."""
    k = spec["kind"]
    rep = m.reports[i]
    step = max(rep)
    out: list[str] = []
    if k == "nop":
        out.append("NopPruner never prunes")
    elif k in ("median", "percentile"):
        if step < spec["n_warmup"]:
            out.append(f"step {step} < n_warmup_steps {spec['n_warmup']}")
        if m.n_finished() < spec["n_startup"]:
            out.append(f"{m.n_finished()} finished trials < n_startup_trials {spec['n_startup']}")
        if not _check_due(list(rep), step, spec["n_warmup"], spec["interval"]):
            out.append("no pruning check is due at this step (interval_steps)")
        n_at = sum(1 for r in m.reports if step in r)
        # (a trial all of whose own values are NaN is pruned before the n_min_trials test; the
        # docstring does not say which rule wins, so that combination is not asserted)
        if n_at < spec["n_min_trials"] and not all(math.isnan(v) for v in rep.values()):
            out.append(f"{n_at} reports at step {step} < n_min_trials {spec['n_min_trials']}")
        if is_champion:
            out.append("champion: every report strictly better than all others'")
    elif k == "sha":
        if spec["min_resource"] != "auto":
            first = spec["min_resource"] * spec["eta"] ** spec["rate"]
            if step < first:
                out.append(f"step {step} < first rung {first}")
        elif m.n_complete_with_steps() == 0:
            out.append("min_resource='auto' and no trial has completed yet")
        if is_champion and spec["bootstrap"] == 0:
            out.append("champion under successive halving without bootstrap")
    elif k == "hyperband":
        if is_champion:
            out.append("champion under Hyperband")
        if step < spec["min_resource"]:
            out.append(f"step {step} < min_resource {spec['min_resource']} (first rung of every bracket)")
    elif k == "threshold":
        pass  # exact oracle below
    elif k == "patient":
        steps = sorted(rep)
        p = spec["patience"]
        if len(steps) <= p + 1:
            out.append(f"{len(steps)} reported values <= patience + 1")
        else:
            before = [rep[s] for s in steps[: -p - 1] if not math.isnan(rep[s])]
            after = [rep[s] for s in steps[-p - 1 :] if not math.isnan(rep[s])]
            if before and after:
                if direction == "minimize" and not (min(before) + spec["min_delta"] < min(after)):
                    out.append("improved within the patience window")
                if direction == "maximize" and not (max(before) - spec["min_delta"] > max(after)):
                    out.append("improved within the patience window")
        if spec["wrapped"] is not None:
            out += ["wrapped: " + r for r in protections(spec["wrapped"], m, i, direction, is_champion)]
            if spec["wrapped"]["kind"] == "threshold" and not threshold_oracle(spec["wrapped"], rep):
                out.append("wrapped threshold pruner would not prune")
    return out


def threshold_oracle(spec: dict[str, Any], rep: dict[int, float]) -> bool:
    step = max(rep)
    if not _check_due(list(rep), step, spec["n_warmup"], spec["interval"]):
        return False
    v = rep[step]
    lo = -math.inf if spec["lower"] is None else spec["lower"]
    up = math.inf if spec["upper"] is None else spec["upper"]
    return math.isnan(v) or v < lo or v > up


def execute(case: dict[str, Any], offset: int, check: bool, ctx: Ctx | None, pruner: Any = None) -> list[Any]:
    """Runs the program; returns the trace [(trial, step, decision, bracket)]."""
    import optuna

    optuna.logging.set_verbosity(optuna.logging.ERROR)
    warnings.simplefilter("ignore")
    spec, direction = case["pruner"], case["direction"]
    storage = optuna.storages.InMemoryStorage()
    if offset:
        other = optuna.create_study(storage=storage, study_name="unrelated")
        for _ in range(offset):
            other.ask()
    if pruner is None:
        pruner = make_pruner(spec)
    study = optuna.create_study(storage=storage, study_name=case["name"], direction=direction, pruner=pruner, sampler=optuna.samplers.RandomSampler(seed=0))
    curves = case["curves"]
    n = len(curves)
    m = Mirror(n)
    trials: list[Any] = [None] * n
    pos = [0] * n  # next action of each trial
    sign = 1.0 if direction == "minimize" else -1.0
    trace: list[Any] = []
    for i in case["order"]:
        c = curves[i]
        if m.state[i] in ("complete", "pruned", "fail", "left-running"):
            continue
        if pos[i] == 0:
            trials[i] = study.ask()
            m.state[i] = "running"
            pos[i] = 1
            continue
        j = pos[i] - 1
        if j < len(c["reports"]):
            step, v = c["reports"][j]
            if v == "WINF":
                v = 0.0 if case["champion"] == i else sign * math.inf
            elif v == "BINF":  # the infinity of the better side (only generated by C13's mirror check)
                v = -sign * math.inf
            if case["champion"] == i:
                # strictly better than anything others may report (their values are in [-10,10])
                v = sign * (-100.0 - v)
            elif not math.isnan(v):
                v = v  # as generated
            t = trials[i]
            first_time = step not in m.reports[i]
            t.report(v, step)
            if first_time:
                m.reports[i][step] = v
            pos[i] += 1
            got = t.should_prune()
            br = None
            if spec["kind"] == "hyperband":
                br = pruner._get_bracket_id(study, study._storage.get_trial(t._trial_id))
            trace.append([i, step, bool(got), br])
            if check:
                assert ctx is not None
                others_at_step = any(step_ in m.reports[o] for o in range(n) if o != i for step_ in [max(m.reports[i])])
                ctx.event("decision")
                ctx.event("decision:" + spec["kind"])
                if others_at_step:
                    ctx.event("decision_with_competitor")
                if case["champion"] == i:
                    ctx.event("champion_decision")
                why = protections(spec, m, i, direction, case["champion"] == i)
                if got and why:
                    raise Violation(
                        "pruned-although-protected:" + spec["kind"],
                        f"pruner={spec} direction={direction} trial {i} reports={m.reports[i]} -> should_prune() True although: {why}; other reports={[m.reports[o] for o in range(n) if o != i]} states={m.state}",
                        case,
                    )
                if spec["kind"] == "threshold":
                    exp = threshold_oracle(spec, m.reports[i])
                    if got != exp:
                        raise Violation(
                            "threshold-not-exact",
                            f"pruner={spec} reports={m.reports[i]}: should_prune() {got}, documented behaviour {exp}",
                            case,
                        )
            if got and c["obey"]:
                study.tell(t, state=optuna.trial.TrialState.PRUNED)
                m.state[i] = "pruned"
            continue
        # finish
        if c["end"] == "complete":
            study.tell(trials[i], c["final"])
            m.state[i] = "complete"
        elif c["end"] == "fail":
            study.tell(trials[i], state=optuna.trial.TrialState.FAIL)
            m.state[i] = "fail"
        else:
            m.state[i] = "left-running"
    return trace


def run_study(case: dict[str, Any], ctx: Ctx) -> None:
    n_dec = sum(len(c["reports"]) for c in case["curves"])
    multi = sum(1 for c in case["curves"] if c["reports"]) >= 2
    kind = case["pruner"]["kind"]
    sub = case["pruner"]["wrapped"]["kind"] if kind == "patient" and case["pruner"]["wrapped"] else ""
    ctx.case(
        fp=case,
        nontrivial=multi and n_dec > 0,
        classes=[kind + ("+" + sub if sub else ""), case["direction"], "champion" if case["champion"] is not None else "nochampion"],
        sample=case,
    )
    t0 = execute(case, 0, True, ctx)
    # same program, storage shared with another study (trial ids != numbers): decisions and
    # Hyperband brackets depend on study name and trial numbers only
    t1 = execute(case, case["offset"], False, None)
    if t0 != t1:
        diff = next((a, b) for a, b in zip(t0, t1) if a != b)
        sig = "bracket-depends-on-more-than-name-and-number" if diff[0][:3] == diff[1][:3] else "decisions-change-with-trial-id-offset"
        raise Violation(sig, f"pruner={case['pruner']} name={case['name']!r}: [trial, step, decision, bracket] fresh storage {diff[0]} vs storage with {case['offset']} foreign trials {diff[1]}", case)
    # the same pruner OBJECT after it served another study (a pruner created once and passed to
    # create_study in a loop): decisions and brackets of this study do not depend on what the
    # object saw before.  Configurations with "auto" resources are documented to fix that value
    # from the first study the object sees and are left out.
    if kind != "nop" and '"auto"' not in json.dumps(case["pruner"]):
        shared = make_pruner(case["pruner"])
        execute(dict(case, name="earlier-" + case["name"], direction="minimize" if case["direction"] == "maximize" else "maximize"), 0, False, None, pruner=shared)
        t3 = execute(case, 0, False, None, pruner=shared)
        ctx.event("pruner_object_reused")
        if t0 != t3:
            diff = next((a, b) for a, b in zip(t0, t3) if a != b)
            sig = "bracket-depends-on-more-than-name-and-number" if diff[0][:3] == diff[1][:3] else "decisions-depend-on-pruner-object-history"
            raise Violation(sig, f"pruner={case['pruner']} name={case['name']!r}: [trial, step, decision, bracket] with a fresh pruner object {diff[0]} vs with a pruner object that served study 'earlier-{case['name']}' before {diff[1]}", case)
    # a second pruner object on a study with the same name but different history/content:
    if kind == "hyperband" and isinstance(case["pruner"]["max_resource"], int):
        b0 = {(i): br for i, _, _, br in t0}
        other = dict(case)
        other["curves"] = [dict(c, reports=[[s, 0.0] for s, _ in c["reports"]][::-1], obey=False) for c in case["curves"]]
        other["champion"] = None
        t2 = execute(other, 0, False, None)
        for i, _, _, br in t2:
            if i in b0 and b0[i] != br:
                # trial i has the same number in both runs iff the ask order is the same (it is:
                # 'order' is unchanged and asks happen on the first turn of each trial)
                raise Violation("bracket-depends-on-more-than-name-and-number", f"trial {i}: bracket {b0[i]} vs {br} with different trial content", case)


# ------------------------------------------------------------------------------------------
# exhaustive helpers
# ------------------------------------------------------------------------------------------


def enum_helpers(ctx: Ctx, tier: str, shard: int, nshards: int) -> None:
    from optuna.pruners._percentile import _is_first_in_interval_step
    from optuna.pruners._successive_halving import _is_trial_promotable_to_next_rung
    from optuna.study import StudyDirection

    n = 0
    # (1) interval gate: all subsets of steps {0..7}, warmup 0..4, interval 1..4
    S = 8
    for mask in range(1, 2**S):
        if mask % nshards != shard:
            continue
        steps = [s for s in range(S) if mask >> s & 1]
        step = max(steps)
        for warm in range(0, 5):
            if step < warm:
                continue
            for itv in range(1, 5):
                got = _is_first_in_interval_step(step, dict.fromkeys(steps).keys(), warm, itv)
                exp = _check_due(steps, step, warm, itv)
                n += 1
                if got != exp:
                    case = {"steps": steps, "warmup": warm, "interval": itv}
                    raise Violation("interval-gate", f"{case}: got {got}, documented {exp}", case)
    # (2) rung promotion: value sets from {0,1,2}^k, k<=5, eta 2..4: best value always promotable,
    # maximize mirrors minimize, and exactly the top floor(n/eta) (at least one) are promotable
    vals = [0.0, 1.0, 2.0]
    idx = 0
    for k in range(1, 6):
        for comp in itertools.product(vals, repeat=k):
            idx += 1
            if idx % nshards != shard:
                continue
            for eta in (2, 3, 4):
                for v in set(comp):
                    a = _is_trial_promotable_to_next_rung(v, list(comp), eta, StudyDirection.MINIMIZE)
                    b = _is_trial_promotable_to_next_rung(-v, [-c for c in comp], eta, StudyDirection.MAXIMIZE)
                    quota = max(len(comp) // eta, 1)
                    exp = sum(1 for c in comp if c < v) < quota
                    n += 1
                    case = {"value": v, "competing": list(comp), "eta": eta}
                    if a != b:
                        raise Violation("rung-promotion-not-mirrored", f"{case}: minimize {a} maximize(-x) {b}", case)
                    if a != exp:
                        raise Violation("rung-promotion", f"{case}: got {a}, top-1/eta rule gives {exp}", case)
    ctx.case(fp=f"enum-{shard}", nontrivial=True, n=n, classes=["enum_helper_calls"])
    ctx.exhaustive_parts.append("_is_first_in_interval_step for all step subsets of {0..7}, warmup 0..4, interval 1..4; _is_trial_promotable_to_next_rung for all value tuples over {0,1,2} up to length 5, eta 2..4, both directions")


def replay_enum(case: dict[str, Any], ctx: Ctx) -> None:
    from optuna.pruners._percentile import _is_first_in_interval_step
    from optuna.pruners._successive_halving import _is_trial_promotable_to_next_rung
    from optuna.study import StudyDirection

    if "steps" in case:
        steps = case["steps"]
        got = _is_first_in_interval_step(max(steps), dict.fromkeys(steps).keys(), case["warmup"], case["interval"])
        if got != _check_due(steps, max(steps), case["warmup"], case["interval"]):
            raise Violation("interval-gate", f"{case}", case)
    else:
        v, comp, eta = case["value"], case["competing"], case["eta"]
        a = _is_trial_promotable_to_next_rung(v, list(comp), eta, StudyDirection.MINIMIZE)
        b = _is_trial_promotable_to_next_rung(-v, [-c for c in comp], eta, StudyDirection.MAXIMIZE)
        exp = sum(1 for c in comp if c < v) < max(len(comp) // eta, 1)
        if a != b or a != exp:
            raise Violation("rung-promotion", f"{case}", case)


CHECKS = [
    Check("study", lambda tier: case_study(), run_study, {"quick": 2400, "thorough": 150000}, budget_s={"quick": 120, "thorough": 1800}),
]
ENUMS = [Enum("enum_helpers", enum_helpers)]
REPLAY = {"enum_helpers": replay_enum}
