"""C17  Incrementally inferred search spaces equal a from-scratch computation."""
from __future__ import annotations

import warnings
from typing import Any

from hypothesis import strategies as st

from core import backends
from core.runner import Check, Ctx, Violation

ID = "C17"
LEVEL = "exploration"
RULE = (
    "Hypothesis generates histories of ask / suggest / tell(COMPLETE|PRUNED|FAIL) / enqueue_trial "
    "/ add_trial operations on a study (in-memory, SQLite, journal file) in which trials finish "
    "out of creation order, stay RUNNING or WAITING, and use different distributions for one "
    "name, with calls to several IntersectionSearchSpace (include_pruned False/True) and "
    "_GroupDecomposedSearchSpace objects at generated points (calculators start at different "
    "times). Oracle: each result equals intersection_search_space(study.get_trials()) computed "
    "afresh and an independent 6-line definition; results of one calculator never grow once a "
    "finished trial of interest was seen; groups are pairwise disjoint, cover exactly the "
    "parameter names of the trials of interest, and every such trial's name set is a union of "
    "groups. Non-trivial = a lower-numbered trial finishes after a higher-numbered one and a "
    "calculator is queried in between and afterwards; distinct = distinct history."
)
ASSUMPTIONS = [
    "one study per calculator object (documented requirement)",
    "a parameter name keeps its distribution class and, for categoricals, its choices (storages reject anything else)",
]

# name -> list of distribution variants (same class per name)
VARIANTS: dict[str, list[tuple[str, tuple[Any, ...], dict[str, Any]]]] = {
    "x": [("float", (0.0, 1.0), {}), ("float", (0.0, 2.0), {}), ("float", (0.0, 1.0), {"step": 0.25})],
    "y": [("int", (0, 5), {}), ("int", (0, 9), {}), ("int", (0, 6), {"step": 2})],
    "z": [("cat", (("a", "b", "c"),), {})],
    "w": [("float", (1e-3, 1.0), {"log": True}), ("float", (1e-2, 1.0), {"log": True})],
    "v": [("int", (1, 8), {"log": True}), ("int", (1, 8), {})][:1],
    "u": [("float", (-1.0, 1.0), {})],
}
NAMES = sorted(VARIANTS)


def suggestion() -> st.SearchStrategy[list[Any]]:
    return st.sampled_from(NAMES).flatmap(
        lambda n: st.tuples(st.just(n), st.integers(0, len(VARIANTS[n]) - 1)).map(list)
    )


@st.composite
def case_history(draw: Any) -> dict[str, Any]:
    n_ops = draw(st.integers(3, 40))
    ops: list[Any] = []
    n_trials = 0
    for _ in range(n_ops):
        kind = draw(
            st.sampled_from(
                ["ask", "ask", "suggest", "suggest", "tell", "tell", "tell", "calc", "calc", "calc", "enqueue", "add"]
            )
        )
        if kind == "ask":
            ops.append(["ask", draw(st.lists(suggestion(), max_size=4))])
            n_trials += 1
        elif kind == "suggest":
            ops.append(["suggest", draw(st.integers(0, 30)), draw(suggestion())])
        elif kind == "tell":
            ops.append(["tell", draw(st.integers(0, 30)), draw(st.sampled_from(["COMPLETE", "COMPLETE", "PRUNED", "FAIL"])), draw(st.booleans())])
        elif kind == "calc":
            ops.append(["calc", draw(st.integers(0, 5))])
        elif kind == "enqueue":
            ops.append(["enqueue"])
        else:
            ops.append(["add", draw(st.lists(suggestion(), max_size=3, unique_by=lambda s: s[0])), draw(st.sampled_from(["COMPLETE", "PRUNED", "FAIL", "WAITING"]))])
    return {"backend": draw(st.sampled_from(["inmemory", "inmemory", "sqlite", "journal_file"])), "ops": ops}


def _suggest(trial: Any, name: str, var: int) -> None:
    kind, args, kw = VARIANTS[name][var]
    if kind == "float":
        trial.suggest_float(name, *args, **kw)
    elif kind == "int":
        trial.suggest_int(name, *args, **kw)
    else:
        trial.suggest_categorical(name, *args)


def _dist(name: str, var: int) -> Any:
    import optuna.distributions as D

    kind, args, kw = VARIANTS[name][var]
    if kind == "float":
        return D.FloatDistribution(*args, **kw)
    if kind == "int":
        return D.IntDistribution(*args, **kw)
    return D.CategoricalDistribution(*args)


def independent_intersection(trials: list[Any], include_pruned: bool) -> dict[str, Any]:
    from optuna.trial import TrialState

    states = {TrialState.COMPLETE} | ({TrialState.PRUNED} if include_pruned else set())
    of_interest = [t for t in trials if t.state in states]
    if not of_interest:
        return {}
    first = of_interest[0].distributions
    return {n: d for n, d in sorted(first.items()) if all(t.distributions.get(n) == d for t in of_interest)}


def run_history(case: dict[str, Any], ctx: Ctx) -> None:
    import optuna
    from optuna.search_space import IntersectionSearchSpace, intersection_search_space
    from optuna.search_space.group_decomposed import _GroupDecomposedSearchSpace
    from optuna.trial import TrialState

    optuna.logging.set_verbosity(optuna.logging.ERROR)
    warnings.simplefilter("ignore")
    fac = backends.factory(ctx.tmpdir())
    try:
        storage = fac.make(case["backend"])
        study = optuna.create_study(storage=storage, study_name="c17", sampler=optuna.samplers.RandomSampler(seed=0))
        # calculators 0,1: intersection(False), 2,3: intersection(True), 4: groups(False), 5: groups(True)
        calcs: dict[int, Any] = {}
        last: dict[int, dict[str, Any] | None] = {}
        running: list[Any] = []  # Trial objects by creation order among asked ones
        finished_numbers: list[int] = []
        out_of_order = False
        calc_after_ooo = False
        calc_before = False
        n_calc = 0
        for op in case["ops"]:
            if op[0] == "ask":
                t = study.ask()
                for name, var in op[1]:
                    try:
                        _suggest(t, name, var)
                    except ValueError:
                        pass  # incompatible with an earlier distribution of this trial: rejected
                running.append(t)
            elif op[0] == "suggest":
                live = [t for t in running if t is not None]
                if live:
                    t = live[op[1] % len(live)]
                    try:
                        _suggest(t, op[2][0], op[2][1])
                    except ValueError:
                        pass
            elif op[0] == "tell":
                live = [t for t in running if t is not None]
                if live:
                    t = live[(len(live) - 1 - op[1] % len(live)) if op[3] else op[1] % len(live)]
                    state = getattr(TrialState, op[2])
                    if state == TrialState.COMPLETE:
                        study.tell(t, 1.0)
                    else:
                        study.tell(t, state=state)
                    if state != TrialState.FAIL and any(n > t.number for n in finished_numbers):
                        out_of_order = True
                    if state != TrialState.FAIL:
                        finished_numbers.append(t.number)
                    running[running.index(t)] = None
            elif op[0] == "enqueue":
                study.enqueue_trial({"x": 0.5})
            elif op[0] == "add":
                dists = {n: _dist(n, v) for n, v in op[1]}
                params = {}
                for n, d in dists.items():
                    params[n] = d.choices[0] if hasattr(d, "choices") else d.low
                state = getattr(TrialState, op[2])
                ft = optuna.trial.create_trial(
                    state=state,
                    params=params if state != TrialState.WAITING else {},
                    distributions=dists if state != TrialState.WAITING else {},
                    value=1.0 if state == TrialState.COMPLETE else None,
                )
                study.add_trial(ft)
                if state in (TrialState.COMPLETE, TrialState.PRUNED):
                    finished_numbers.append(len(study.get_trials(deepcopy=False)) - 1)
            elif op[0] == "calc":
                k = op[1]
                n_calc += 1
                if out_of_order:
                    calc_after_ooo = True
                else:
                    calc_before = True
                trials = study.get_trials(deepcopy=False)
                if k < 4:
                    inc = k >= 2
                    c = calcs.setdefault(k, IntersectionSearchSpace(include_pruned=inc))
                    got = c.calculate(study)
                    scratch = intersection_search_space(trials, include_pruned=inc)
                    indep = independent_intersection(trials, inc)
                    if scratch != indep:
                        raise Violation("from-scratch-intersection-differs-from-definition", f"include_pruned={inc}: {scratch} vs {indep}; trials={_dump(trials)}", case)
                    if got != scratch or list(got) != sorted(got):
                        raise Violation(
                            "incremental-intersection-differs",
                            f"calculator {k} (include_pruned={inc}) returned {got}, from scratch {scratch}; trials={_dump(trials)}",
                            case,
                        )
                    states = {TrialState.COMPLETE} | ({TrialState.PRUNED} if inc else set())
                    seen = any(t.state in states for t in trials)
                    prev = last.get(k)
                    if prev is not None and not all(n in prev and prev[n] == d for n, d in got.items()):
                        raise Violation("intersection-grew", f"calculator {k}: {prev} -> {got}", case)
                    last[k] = dict(got) if seen else None
                    # the returned dict is a copy: mutating it must not affect later results
                    got["__poison__"] = None
                else:
                    inc = k == 5
                    c = calcs.setdefault(k, _GroupDecomposedSearchSpace(include_pruned=inc))
                    groups = c.calculate(study).search_spaces
                    states = {TrialState.COMPLETE} | ({TrialState.PRUNED} if inc else set())
                    interest = [t for t in trials if t.state in states]
                    names = [set(g) for g in groups]
                    allnames = set().union(*[set(t.distributions) for t in interest]) if interest else set()
                    flat = [n for g in names for n in g]
                    if len(flat) != len(set(flat)) or any(len(g) == 0 for g in names):
                        raise Violation("groups-not-disjoint", f"{names}; trials={_dump(trials)}", case)
                    # a calculator only ever adds trials, so its cover may include names of trials
                    # it saw earlier; every such trial is still in the study (trials never vanish)
                    if set(flat) != allnames:
                        raise Violation("groups-do-not-cover-seen-parameters", f"groups {names} vs names {allnames}; trials={_dump(trials)}", case)
                    for t in interest:
                        ts = set(t.distributions)
                        if any(g & ts and not g <= ts for g in names):
                            raise Violation("trial-not-a-union-of-groups", f"trial {t.number} params {ts} vs groups {names}", case)
        nontrivial = out_of_order and calc_after_ooo and calc_before
        ctx.case(
            fp=case,
            nontrivial=nontrivial,
            classes=[case["backend"], "out_of_order" if out_of_order else "in_order", "calc%d" % min(n_calc, 5)],
            sample=case,
        )
    finally:
        fac.release()


def _dump(trials: list[Any]) -> list[Any]:
    return [(t.number, t.state.name, {n: repr(d) for n, d in t.distributions.items()}) for t in trials]


CHECKS = [
    Check("history", lambda tier: case_history(), run_history, {"quick": 3000, "thorough": 100000}, budget_s={"quick": 120, "thorough": 1800}),
]
