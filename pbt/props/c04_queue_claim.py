"""C04  A queued trial is handed to exactly one worker, with its fixed parameters."""
from __future__ import annotations

import warnings
from typing import Any

from hypothesis import strategies as st

from core import conc
from core.runner import Check, Ctx, Enum, Violation
from core.sched import Deadlock, Inconclusive, Scheduler

ID = "C04"
LEVEL = "exploration"
RULE = (
    "Hypothesis generates scenarios on a layout (threads sharing one storage object: in-memory, "
    "cached SQLite, journal file, journal redis; 'processes' = separate storage objects on one "
    "database / file / redis: cached SQLite, journal file with both locks, journal redis): a "
    "queue of 1-4 trials put there by enqueue_trial(params, user_attrs) or add_trial(WAITING), "
    "possibly with finished trials imported in between (add_trial(COMPLETE)), "
    "optionally after deleting and re-creating the study under the same name and with a worker "
    "that already owns a RUNNING trial; the caller overwrites its own params / user_attrs dicts "
    "right after enqueueing; the workers sample with RandomSampler or with multivariate TPE whose "
    "relative search space contains the queued names; and 2-3 workers running 1-3 actions each (ask() followed "
    "by suggesting every parameter, enqueue another trial, import a finished trial, tell a claimed trial). A "
    "deterministic scheduler owns the interleaving (yield point = every source line of the "
    "storage layer and of study.py, every system call of the journal file backend, every lock "
    "operation); for every scenario all single-preemption schedules are run (or a stratified "
    "sample of ~150 when there are more) plus generated 2-3-preemption schedules. Oracle: the "
    "trial ids returned by all ask() calls are pairwise distinct; a queued trial is returned at "
    "most once and every queued trial that left the WAITING state was returned by an ask(); a sequential drain afterwards returns every remaining queued trial exactly once "
    "and leaves none WAITING; the worker that gets a queued trial receives the enqueued values "
    "verbatim from suggest, and number and user attributes are those recorded at enqueue time. "
    "Non-trivial = two ask() calls overlap while a WAITING trial exists; distinct = distinct "
    "(scenario, schedule)."
)
ASSUMPTIONS = [
    "preemption granularity is the source line (not the bytecode); SQLite and SQLAlchemy internals are trusted",
    "an ask() that fails with the documented StorageInternalError ('database is locked', SQLite busy timeout 0) or UpdateFinishedTrialError claims nothing and is not a violation",
    "'processes' are storage objects scheduled like threads; real OS-level concurrency is only stressed by optuna's own suite",
]

LAYOUTS = [l for l in conc.LAYOUTS if l != "threads:sqlite" and l != "procs:sqlite"]


@st.composite
def case_scenario(draw: Any) -> dict[str, Any]:
    nw = draw(st.integers(2, 3))
    # "add_finished": a COMPLETE trial is imported (add_trial) while trials are queued
    queue = draw(st.lists(st.sampled_from(["enqueue", "enqueue", "enqueue", "add_waiting", "add_waiting", "add_finished"]), min_size=1, max_size=4))
    if all(q == "add_finished" for q in queue):
        queue[0] = "enqueue"
    workers = []
    for _ in range(nw):
        workers.append(draw(st.lists(st.sampled_from(["ask", "ask", "ask", "ask", "ask", "ask", "enqueue", "enqueue", "tell", "tell", "add_finished"]), min_size=1, max_size=3)))
    if not any("ask" in w for w in workers[1:]) or "ask" not in workers[0]:
        workers[0] = ["ask"] + workers[0][:2]
        workers[1] = ["ask"] + workers[1][:2]
    return {
        "layout": draw(st.sampled_from(LAYOUTS)),
        "queue": queue,
        "recreate": draw(st.integers(0, 3)) == 0,
        "owner_has_running": draw(st.integers(0, 2)) == 0,
        # the workers' sampler: independent sampling only, or a sampler whose relative search space
        # contains the queued parameter names (multivariate TPE after two completed trials)
        "sampler": draw(st.sampled_from(["random", "random", "tpe_mv"])),
        "workers": workers,
        "multi": draw(st.lists(st.lists(st.tuples(st.floats(0, 1), st.integers(0, 1)).map(list), min_size=2, max_size=3), max_size=4)),
        "salt": draw(st.integers(0, 1000)),
    }


def fixed_params(i: int) -> dict[str, Any]:
    return {"x": 0.25 + i, "c": ["a", "b", None][i % 3], "k": 10 + i}


def execute(case: dict[str, Any], preempt: dict[int, int], tmpdir: str, ctx: Ctx | None) -> tuple[int, bool]:
    import optuna
    import optuna.study.study as study_mod
    from optuna.trial import TrialState

    optuna.logging.set_verbosity(optuna.logging.CRITICAL)
    warnings.simplefilter("ignore")
    layout = case["layout"]
    nw = len(case["workers"])
    sched = Scheduler(
        preempt=preempt,
        trace_files=conc.target_files(layout, (study_mod.__file__,)),
        # of study.py only the queue path is a source of yield points
        only_funcs={study_mod.__file__: {"ask", "_pop_waiting_trial_id", "enqueue_trial", "add_trial", "_should_skip_enqueue", "tell"}},
    )
    with conc.Env(layout, tmpdir, sched, nw, pickled=bool(case.get("salt", 0) % 2)) as env:
        s0 = env.setup
        if case["recreate"]:
            old = optuna.create_study(storage=s0, study_name="q")
            old.enqueue_trial({"x": 9.0})
            old.ask()
            optuna.delete_study(study_name="q", storage=s0)
        st0 = optuna.create_study(storage=s0, study_name="q", sampler=optuna.samplers.RandomSampler(seed=0))
        if case.get("sampler") == "tpe_mv":
            for j in range(2):
                st0.add_trial(
                    optuna.trial.create_trial(
                        params={"x": 50.0 + j, "c": "a", "k": 50 + j},
                        distributions={"x": optuna.distributions.FloatDistribution(0, 100), "c": optuna.distributions.CategoricalDistribution(["a", "b", None]), "k": optuna.distributions.IntDistribution(0, 100)},
                        value=float(j),
                    )
                )
        if case["owner_has_running"]:
            st0.ask()  # a RUNNING trial exists (and, on the journal, is owned by the set-up worker)
        queued: dict[int, dict[str, Any]] = {}  # trial number -> fixed params

        def put(study: Any, kind: str, i: int) -> None:
            if kind == "add_finished":
                study.add_trial(
                    optuna.trial.create_trial(
                        params={"x": 40.0, "c": "b", "k": 40},
                        distributions={"x": optuna.distributions.FloatDistribution(0, 100), "c": optuna.distributions.CategoricalDistribution(["a", "b", None]), "k": optuna.distributions.IntDistribution(0, 100)},
                        value=4.0,
                    )
                )
                return
            fp = fixed_params(i)
            ua = {"n": i}
            if kind == "enqueue":
                study.enqueue_trial(fp, user_attrs=ua)
            else:
                study.add_trial(optuna.trial.create_trial(state=TrialState.WAITING, system_attrs={"fixed_params": fp}, user_attrs=ua))
            # the caller goes on using its dicts (a sweep built by updating one dict in a loop):
            # what was enqueued is the value at enqueue time
            fp.update(x=77.0, c="b" if fp["c"] != "b" else "a", k=77)
            ua["n"] = -1

        for i, kind in enumerate(case["queue"]):
            put(st0, kind, i)
        stores = env.worker_storages()
        def sampler(i: int) -> Any:
            if case.get("sampler") == "tpe_mv":
                return optuna.samplers.TPESampler(multivariate=True, n_startup_trials=1, seed=10 + i)
            return optuna.samplers.RandomSampler(seed=10 + i)

        studies = [optuna.load_study(study_name="q", storage=s, sampler=sampler(i)) for i, s in enumerate(stores)]
        asks: list[Any] = []  # (worker, trial_id, number, user_attrs n, suggested, (t0, t1))
        errors: list[Any] = []
        spans: list[tuple[int, int, str]] = []

        def worker(i: int) -> Any:
            def run() -> None:
                mine: list[Any] = []
                for a_i, a in enumerate(case["workers"][i]):
                    t0 = sched.steps
                    try:
                        if a == "ask":
                            t = studies[i].ask()
                            got = {"x": t.suggest_float("x", 0, 100), "c": t.suggest_categorical("c", ["a", "b", None]), "k": t.suggest_int("k", 0, 100)}
                            asks.append((i, t._trial_id, t.number, t.user_attrs.get("n"), got, (t0, sched.steps)))
                            mine.append(t)
                        elif a in ("enqueue", "add_finished"):
                            put(studies[i], a, 100 + 10 * i + a_i)
                        elif a == "tell" and mine:
                            studies[i].tell(mine.pop(0), 1.0)
                    except (optuna.exceptions.StorageInternalError, optuna.exceptions.UpdateFinishedTrialError) as e:
                        errors.append((i, a, type(e).__name__))
                    spans.append((t0, sched.steps, a))

            return run

        try:
            res = sched.run({f"w{i}": worker(i) for i in range(nw)})
        except (Deadlock, Inconclusive) as e:
            if ctx is not None:
                ctx.event("inconclusive:" + type(e).__name__)
            return sched.steps, False
        sw = f"layout={layout} schedule {preempt} switches {sched.switches}"
        for n, r in res.items():
            if r[0] != "ok":
                raise Violation("worker-raised", f"{sw}: {n}: {r[1]!r}", None)
        if ctx is not None:
            for e in errors:
                ctx.event("allowed-error:" + e[2])
        # ---- oracle
        ids = [a[1] for a in asks]
        if len(set(ids)) != len(ids):
            dup = sorted({i for i in ids if ids.count(i) > 1})
            who = [(a[0], a[1], a[2], a[3]) for a in asks if a[1] in dup]
            raise Violation("trial-claimed-twice", f"{sw}: trial id(s) {dup} returned by more than one ask(): (worker, id, number, enqueue index) {who}", None)
        view = env.fresh_view()
        sid = view.get_study_id_from_name("q")
        all_trials = view.get_all_trials(sid)
        by_num = {t.number: t for t in all_trials}
        for (w, tid, num, n, got, _) in asks:
            t = by_num[num]
            fp = t.system_attrs.get("fixed_params")
            if n == -1 or t.user_attrs.get("n") == -1 or (fp is not None and (fp.get("x") == 77.0 or fp.get("k") == 77)):
                raise Violation("queued-trial-changed-after-enqueue", f"{sw}: trial number {num} (worker {w}): the caller changed its own params / user_attrs dicts after enqueueing (x=77.0, k=77, n=-1) and the queued trial followed: stored fixed_params {fp}, user_attrs {t.user_attrs}, suggest returned {got}", None)
            if fp is not None:
                for k_, v in fp.items():
                    if not (type(got[k_]) is type(v) and got[k_] == v):
                        raise Violation("enqueued-value-not-delivered", f"{sw}: worker {w} got trial number {num} with fixed params {fp} but suggest returned {got}", None)
                if t.user_attrs.get("n") != n or (n is not None and n < 100 and fixed_params(n) != fp):
                    raise Violation("queued-trial-lost-its-attributes", f"{sw}: trial {num}: user_attrs {t.user_attrs}, fixed {fp}, worker saw n={n}", None)
        # a queued trial that is no longer WAITING was handed to some ask() (an ask() that failed
        # with an allowed storage error may have claimed a trial before failing: only checked in
        # schedules without such errors)
        if not errors:
            handed = {a[2] for a in asks}
            lost = [(t.number, t.state.name) for t in all_trials if "fixed_params" in t.system_attrs and t.state != TrialState.WAITING and t.number not in handed]
            if lost:
                raise Violation("queued-trial-lost", f"{sw}: queued trial(s) {lost} left the WAITING state but no ask() returned them; asks returned numbers {sorted(handed)}", None)
        # drain sequentially: every remaining WAITING trial is handed out exactly once
        drain = optuna.load_study(study_name="q", storage=view, sampler=optuna.samplers.RandomSampler(seed=99))
        waiting = [t.number for t in all_trials if t.state == TrialState.WAITING]
        got_nums = []
        for _ in range(len(waiting) + 2):
            if not any(t.state == TrialState.WAITING for t in view.get_all_trials(sid, deepcopy=False)):
                break
            t = drain.ask()
            got_nums.append(t.number)
        left = [t.number for t in view.get_all_trials(sid, deepcopy=False) if t.state == TrialState.WAITING]
        if left or sorted(n for n in got_nums if n in waiting) != sorted(waiting):
            raise Violation("queued-trial-skipped", f"{sw}: WAITING after the race {waiting}, a sequential drain returned numbers {got_nums}, still WAITING {left}", None)
        claimed_numbers = [a[2] for a in asks] + got_nums
        queued_numbers = [t.number for t in all_trials if "fixed_params" in t.system_attrs]
        for qn in queued_numbers:
            if claimed_numbers.count(qn) > 1:
                raise Violation("trial-claimed-twice", f"{sw}: queued trial number {qn} handed out {claimed_numbers.count(qn)} times", None)
        ask_spans = [s for s in spans if s[2] == "ask"]
        overlap = any(a[0] < b[1] and b[0] < a[1] for i, a in enumerate(ask_spans) for b in ask_spans[i + 1 :])
        return sched.steps, bool(sched.switches) and overlap


def run_scenario(case: dict[str, Any], ctx: Ctx) -> None:
    scen = {k: case.get(k) for k in ("layout", "queue", "recreate", "owner_has_running", "workers", "sampler")}

    def one(preempt: dict[int, int]) -> int:
        try:
            steps, nt = execute(case, preempt, ctx.tmpdir(), ctx)
        except Violation as v:
            v.case = dict(case, schedule=[[k, c] for k, c in sorted(preempt.items())])
            raise
        ctx.case(fp=[scen, sorted(preempt.items())], nontrivial=nt, classes=[case["layout"], f"preemptions{len(preempt)}"], sample=dict(scen, schedule=[[k, c] for k, c in sorted(preempt.items())]) if nt else None)
        return steps

    if "schedule" in case:
        one({int(k): int(c) for k, c in case["schedule"]})
        return
    n = one({})
    limit = case.get("limit_quick", 50 if "sqlite" in case["layout"] else 90) if ctx.tier == "quick" else 100000
    pts = conc.switch_points(n, len(case["workers"]), limit, case["salt"])
    n_all = n * (len(case["workers"]) - 1)
    if "sqlite" in case["layout"] and ctx.tier == "quick":
        # every preemption next to an SQL statement / commit (those decide what the other
        # connection sees), then the thinner stride over all source lines
        sqlp = conc.sql_switch_points(n, len(case["workers"]), 36, case["salt"])
        pts = sqlp + [p for p in pts if p not in sqlp][:12]
        ctx.event("sql_boundary_preemptions", len(sqlp))
    # quick tier: a generated scenario gets at most 45 s (a 3-worker scenario on SQLite with a
    # model-based sampler costs seconds per schedule); what was not run is counted
    import time as _time

    t_end = _time.monotonic() + (45.0 if ctx.tier == "quick" and "limit_quick" not in case else 1e9)
    done = 0
    for sched_ in case["multi"]:
        one({min(int(f * n), n - 1): c for f, c in sched_})
    for p in pts:
        if _time.monotonic() > t_end:
            ctx.event("schedules_not_run_time_cap", len(pts) - done)
            break
        one(p)
        done += 1
    ctx.event("scenarios_all_single_preemptions" if len(pts) == n_all else "scenarios_sampled")
    ctx.event("yield_points", n)


def enum_classic(ctx: Ctx, tier: str, shard: int, nshards: int) -> None:
    """The plain claim race -- one queued trial, two workers that both ask() -- on every layout,
    with the workers' journal storages constructed independently and as pickled copies: every
    fourth yield point x the other worker in the quick tier (a window of four consecutive yield
    points is always hit), every yield point in the thorough tier."""
    jobs = []
    for lay in LAYOUTS:
        for pickled in (0, 1) if lay.startswith("procs:journal") else (0,):
            for sampler in ("random",):
                jobs.append((lay, pickled, sampler))
    for i, (lay, pickled, sampler) in enumerate(jobs):
        if i % nshards != shard:
            continue
        case = {"layout": lay, "queue": ["enqueue"], "recreate": False, "owner_has_running": False, "sampler": sampler, "workers": [["ask"], ["ask"]], "multi": [], "salt": 2 * i + pickled, "limit_quick": 60 if "sqlite" in lay else 230}
        ctx.sub = "classic"
        run_scenario(case, ctx)
        ctx.event("classic:two-workers-ask-one-queued-trial" + (":pickled-storages" if pickled else ""))
    ctx.exhaustive_parts.append("thorough tier: every single-preemption schedule of the two-workers-one-queued-trial race on every layout")


CHECKS = [
    Check("scenario", lambda tier: case_scenario(), run_scenario, {"quick": 24, "thorough": 1200}, budget_s={"quick": 170, "thorough": 3000}, shrink=False, case_timeout=1500),
]
ENUMS = [Enum("classic", enum_classic)]
REPLAY = {"classic": run_scenario}
