"""C13  Maximising f behaves exactly like minimising -f."""
from __future__ import annotations

import warnings
from typing import Any

from hypothesis import strategies as st

from core import programs
from core.model import deep_eq
from core.runner import Check, Ctx, Violation

ID = "C13"
LEVEL = "exploration"
RULE = (
    "Hypothesis generates a deterministic objective program with pairwise-distinct values "
    "(reported intermediate values are dyadic rationals so percentile interpolation is exact), a "
    "seeded sampler (Random, TPE variants, NSGA-II/III, QMC, BruteForce, PartialFixed; GP in the "
    "thorough tier), a pruner (Nop, Median, Percentile, SHA, Hyperband, Patient(wrapped), "
    "Threshold, Wilcoxon), directions for 1-3 objectives and a non-empty subset of objectives to "
    "flip. Run A uses the generated directions on f; run B flips the direction of the chosen "
    "objectives, negates those objective values (and the reported values for single-objective "
    "studies) and mirrors value thresholds (lower' = -upper, upper' = -lower), same seeds. "
    "Oracle (metamorphic): per trial the same params, state and reported steps, values and "
    "intermediate values that are exact negations in the flipped objectives, and the same "
    "best_trial number / best_trials numbers. The programs report NaN / +inf / -inf at generated "
    "steps. Sub-check 'pair_gp': the same with the GP sampler only (a few dozen pairs in the quick "
    "tier). Sub-check 'pruner': pruner-only histories (C16's generator: up to 8 trials whose ask / "
    "report / should_prune / tell calls are interleaved, every pruner incl. Patient-wrapped ones, "
    "values on the 1/8 grid, percentiles multiples of 12.5, NaN and the infinity of either side) "
    "run as given and mirrored: every pruning decision and Hyperband bracket must coincide. "
    "Non-trivial = at least one trial was pruned or "
    "the sampler left its start-up phase (pruner sub-check: two or more trials with reports); distinct = distinct (program, sampler, pruner, flip)."
)
ASSUMPTIONS = [
    "exact mirroring rests on IEEE negation symmetry; percentiles are multiples of 12.5 and reported values dyadic, so no decision sits on an interpolation rounding",
    "in-memory storage (storage independence is C09's subject); fixed study name",
]


@st.composite
def case_pair(draw: Any, tier: str = "quick", only: list[str] | None = None) -> dict[str, Any]:
    kinds = only or (list(programs.SAMPLER_KINDS) + (["gp"] if tier == "thorough" else []))
    sampler = draw(programs.sampler_spec(kinds))
    prog = draw(programs.program(discrete_only=sampler["kind"] == "brute"))
    n_obj = prog["n_obj"]
    pruner_kinds = [k for k in programs.PRUNER_KINDS if not (k == "hyperband" and sampler["kind"] in ("nsgaii", "nsgaii_sbx", "nsgaiii"))]
    flip = draw(st.lists(st.booleans(), min_size=n_obj, max_size=n_obj))
    if not any(flip):
        flip[draw(st.integers(0, n_obj - 1))] = True
    return {
        "program": prog,
        "sampler": sampler,
        # NSGA-II/III under HyperbandPruner raise KeyError/IndexError on any storage (they mix the
        # bracket-filtered study with the unfiltered trial list): a crash outside the listed properties,
        # see DESIGN.md; the combination is not generated
        "pruner": draw(programs.pruner_spec(pruner_kinds)),
        "n_trials": draw(st.integers(6, 24 if sampler["kind"] != "gp" else 10)),
        "directions": [draw(st.sampled_from(["minimize", "maximize"])) for _ in range(n_obj)],
        "flip": flip,
    }


def _quantise(prog: dict[str, Any]) -> dict[str, Any]:
    return prog


def run_side(case: dict[str, Any], mirrored: bool) -> tuple[list[Any], Any]:
    import optuna

    optuna.logging.set_verbosity(optuna.logging.ERROR)
    warnings.simplefilter("ignore")
    prog = case["program"]
    n_obj = prog["n_obj"]
    sign = [(-1.0 if (mirrored and case["flip"][j]) else 1.0) for j in range(n_obj)]
    dirs = []
    for j, d in enumerate(case["directions"]):
        if mirrored and case["flip"][j]:
            d = "maximize" if d == "minimize" else "minimize"
        dirs.append(d)
    sampler = programs.make_sampler(case["sampler"])
    pruner = programs.make_pruner(case["pruner"], mirror=mirrored and case["flip"][0])
    study = optuna.create_study(study_name="c13-study", directions=dirs, sampler=sampler, pruner=pruner)
    rec = programs.Recorder()
    obj = programs.make_objective(prog, rec, sign=sign, distinct=True, dyadic=True)
    try:
        study.optimize(obj, n_trials=case["n_trials"], catch=(ValueError,))
    except (IndexError, KeyError, AssertionError, TypeError, ZeroDivisionError) as e:
        # optimize() itself failed (a crash inside a sampler / pruner): recorded, and judged below
        # like everything else -- the mirrored run has to fail the same way at the same trial
        study._c13_crash = f"{type(e).__name__}"  # type: ignore[attr-defined]
    out = []
    for t in study.get_trials(deepcopy=False):
        r = programs.trial_record(t)
        r["seen"] = rec.seen.get(t.number)
        out.append(r)
    return out, study


def run_pair(case: dict[str, Any], ctx: Ctx) -> None:
    sk = case["sampler"]["kind"]
    prog = case["program"]
    if sk == "brute":
        from props.c09_reproducible import _brute_leaves

        if _brute_leaves(prog) <= case["n_trials"]:
            case = dict(case, n_trials=max(1, _brute_leaves(prog) - 1))
    a, sa = run_side(case, False)
    b, sb = run_side(case, True)
    ca, cb = getattr(sa, "_c13_crash", None), getattr(sb, "_c13_crash", None)
    if ca != cb:
        raise Violation("mirror:one-side-raises", f"sampler={case['sampler']} pruner={case['pruner']['kind']} directions={case['directions']} flip={case['flip']}: optimize() raised {ca} in the run as given and {cb} in the mirrored run", case)
    if ca is not None:
        # a crash that does not depend on the direction is not this property's subject (it is
        # listed in DESIGN.md 6.3); the histories up to the crash are still compared
        ctx.event("both-runs-raise:" + ca)
    flip = case["flip"]
    n_obj = prog["n_obj"]
    ctxt = f"sampler={case['sampler']} pruner={case['pruner']} directions={case['directions']} flip={flip}"
    if len(a) != len(b):
        raise Violation("mirror:number-of-trials", f"{ctxt}: {len(a)} vs {len(b)}", case)
    for x, y in zip(a, b):
        if not deep_eq(x["params"], y["params"]) or not deep_eq(x["seen"], y["seen"]):
            raise Violation("mirror:params-differ", f"{ctxt}: trial {x['number']}: {x['params']} vs mirrored run {y['params']}", case)
        if x["state"] != y["state"] or sorted(x["iv"]) != sorted(y["iv"]):
            raise Violation(
                "mirror:pruning-decision-differs",
                f"{ctxt}: trial {x['number']}: state {x['state']} with reported steps {sorted(x['iv'])} vs mirrored run {y['state']} with {sorted(y['iv'])}; intermediate values {x['iv']} vs {y['iv']}",
                case,
            )
        if x["values"] is not None:
            exp = [(-v if flip[j] else v) for j, v in enumerate(x["values"])]
            if not deep_eq(exp, y["values"]):
                raise Violation("mirror:values-not-negated", f"{ctxt}: trial {x['number']}: {x['values']} vs {y['values']}", case)
        if n_obj == 1 and flip[0]:
            if not deep_eq({k: -v for k, v in x["iv"].items()}, y["iv"]):
                raise Violation("mirror:intermediate-values-not-negated", f"{ctxt}: trial {x['number']}", case)
    if n_obj == 1:
        def best(s: Any) -> Any:
            try:
                return s.best_trial.number
            except ValueError:
                return None

        if best(sa) != best(sb):
            raise Violation("mirror:best_trial-differs", f"{ctxt}: {best(sa)} vs {best(sb)}", case)
    else:
        ba, bb = sorted(t.number for t in sa.best_trials), sorted(t.number for t in sb.best_trials)
        if ba != bb:
            raise Violation("mirror:best_trials-differ", f"{ctxt}: {ba} vs {bb}", case)
    pruned = sum(r["state"] == "PRUNED" for r in a)
    past = case["n_trials"] > max(case["sampler"]["n_startup"], case["sampler"]["pop"])
    ctx.case(
        fp=[case["program"], case["sampler"], case["pruner"], case["directions"], case["flip"], case["n_trials"]],
        nontrivial=pruned > 0 or past,
        classes=["sampler:" + sk, "pruner:" + case["pruner"]["kind"], f"obj{n_obj}", "pruned" if pruned else "nopruned"],
        sample=case,
    )
    ctx.event("pruning_decisions_mirrored", sum(len(r["iv"]) for r in a))


# ---- pruners alone: interleaved report / should_prune histories, mirrored ---------------------


@st.composite
def case_pruner(draw: Any) -> dict[str, Any]:
    """A C16 history (interleaved ask / report / should_prune / tell of up to 8 trials, any pruner)
    made exactly mirrorable: values on the 1/8 grid, percentiles multiples of 12.5, no champion;
    NaN and both infinities (worse side / better side of the direction) among the reports."""
    from props import c16_pruners as c16

    case = draw(c16.case_study())
    case["champion"] = None

    def q(v: Any) -> Any:
        if isinstance(v, str) or v != v:
            return v
        return round(v * 8) / 8

    for c in case["curves"]:
        c["reports"] = [[s_, draw(st.sampled_from(["BINF", "WINF"])) if draw(st.integers(0, 11)) == 0 else q(v)] for s_, v in c["reports"]]

    def fix(p: dict[str, Any]) -> dict[str, Any]:
        p = dict(p)
        if "percentile" in p:
            p["percentile"] = round(p["percentile"] / 12.5) * 12.5
        if p.get("wrapped"):
            p["wrapped"] = fix(p["wrapped"])
        return p

    case["pruner"] = fix(case["pruner"])
    return case


def _mirror_pruner(p: dict[str, Any]) -> dict[str, Any]:
    p = dict(p)
    if p["kind"] == "threshold":
        p["lower"], p["upper"] = (None if p["upper"] is None else -p["upper"]), (None if p["lower"] is None else -p["lower"])
    if p.get("wrapped"):
        p["wrapped"] = _mirror_pruner(p["wrapped"])
    return p


def run_pruner(case: dict[str, Any], ctx: Ctx) -> None:
    from props import c16_pruners as c16

    neg = lambda v: v if isinstance(v, str) else -v  # noqa: E731  (NaN stays NaN; the infinity tokens follow the direction)
    mirrored = dict(
        case,
        direction="maximize" if case["direction"] == "minimize" else "minimize",
        pruner=_mirror_pruner(case["pruner"]),
        curves=[dict(c, reports=[[s_, neg(v)] for s_, v in c["reports"]], final=-c["final"]) for c in case["curves"]],
    )
    a = c16.execute(case, 0, False, None)
    b = c16.execute(mirrored, 0, False, None)
    kind = case["pruner"]["kind"] + ("+" + case["pruner"]["wrapped"]["kind"] if case["pruner"].get("wrapped") else "")
    n_inf = sum(1 for c in case["curves"] for _, v in c["reports"] if isinstance(v, str))
    ctx.case(fp=case, nontrivial=len(a) > 1 and sum(1 for c in case["curves"] if c["reports"]) >= 2, classes=[kind, case["direction"], "with-infinite-reports" if n_inf else "finite-or-nan"], sample=case)
    ctx.event("pruning_decisions_mirrored", len(a))
    if a != b:
        d = next((x, y) for x, y in zip(a, b) if x != y) if len(a) == len(b) else (a[-1:], b[-1:])
        raise Violation("mirror:pruning-decision-differs", f"pruner={case['pruner']} direction={case['direction']}: [trial, step, pruned?, bracket] {d[0]} vs mirrored run {d[1]}; curves {[c['reports'] for c in case['curves']]}", case)


CHECKS = [
    Check("pair", lambda tier: case_pair(tier), run_pair, {"quick": 1600, "thorough": 40000}, budget_s={"quick": 120, "thorough": 2400}),
    # the GP sampler costs seconds per study (torch): a few pairs in the quick tier, more of them
    # inside "pair" in the thorough tier
    Check("pruner", lambda tier: case_pruner(), run_pruner, {"quick": 6000, "thorough": 300000}, budget_s={"quick": 100, "thorough": 1500}),
    Check("pair_gp", lambda tier: case_pair(tier, only=["gp"]), run_pair, {"quick": 48, "thorough": 1600}, budget_s={"quick": 100, "thorough": 1500}, shrink=False),
]
