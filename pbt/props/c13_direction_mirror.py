"""C13  Maximising f behaves exactly like minimising -f."""
from __future__ import annotations

import warnings
from typing import Any

from hypothesis import strategies as st

from core import programs
from core.model import deep_eq
from core.runner import Check, Ctx, Violation

ID = "C13"
LEVEL = "exploration"
RULE = (
    "Hypothesis generates a deterministic objective program with pairwise-distinct values "
    "(reported intermediate values are dyadic rationals so percentile interpolation is exact), a "
    "seeded sampler (Random, TPE variants, NSGA-II/III, QMC, BruteForce, PartialFixed; GP in the "
    "thorough tier), a pruner (Nop, Median, Percentile, SHA, Hyperband, Patient(wrapped), "
    "Threshold, Wilcoxon), directions for 1-3 objectives and a non-empty subset of objectives to "
    "flip. Run A uses the generated directions on f; run B flips the direction of the chosen "
    "objectives, negates those objective values (and the reported values for single-objective "
    "studies) and mirrors value thresholds (lower' = -upper, upper' = -lower), same seeds. "
    "Oracle (metamorphic): per trial the same params, state and reported steps, values and "
    "intermediate values that are exact negations in the flipped objectives, and the same "
    "best_trial number / best_trials numbers. Non-trivial = at least one trial was pruned or "
    "the sampler left its start-up phase; distinct = distinct (program, sampler, pruner, flip)."
)
ASSUMPTIONS = [
    "exact mirroring rests on IEEE negation symmetry; percentiles are 25/50/75 and reported values dyadic, so no decision sits on an interpolation rounding",
    "in-memory storage (storage independence is C09's subject); fixed study name",
]


@st.composite
def case_pair(draw: Any, tier: str = "quick") -> dict[str, Any]:
    kinds = list(programs.SAMPLER_KINDS) + (["gp"] if tier == "thorough" else [])
    sampler = draw(programs.sampler_spec(kinds))
    prog = draw(programs.program(discrete_only=sampler["kind"] == "brute"))
    n_obj = prog["n_obj"]
    pruner_kinds = [k for k in programs.PRUNER_KINDS if not (k == "hyperband" and sampler["kind"] in ("nsgaii", "nsgaii_sbx", "nsgaiii"))]
    flip = draw(st.lists(st.booleans(), min_size=n_obj, max_size=n_obj))
    if not any(flip):
        flip[draw(st.integers(0, n_obj - 1))] = True
    return {
        "program": prog,
        "sampler": sampler,
        # NSGA-II/III under HyperbandPruner raise KeyError/IndexError on any storage (they mix the
        # bracket-filtered study with the unfiltered trial list): a crash outside the listed properties,
        # see DESIGN.md; the combination is not generated
        "pruner": draw(programs.pruner_spec(pruner_kinds)),
        "n_trials": draw(st.integers(6, 24 if sampler["kind"] != "gp" else 10)),
        "directions": [draw(st.sampled_from(["minimize", "maximize"])) for _ in range(n_obj)],
        "flip": flip,
    }


def _quantise(prog: dict[str, Any]) -> dict[str, Any]:
    return prog


def run_side(case: dict[str, Any], mirrored: bool) -> tuple[list[Any], Any]:
    import optuna

    optuna.logging.set_verbosity(optuna.logging.ERROR)
    warnings.simplefilter("ignore")
    prog = case["program"]
    n_obj = prog["n_obj"]
    sign = [(-1.0 if (mirrored and case["flip"][j]) else 1.0) for j in range(n_obj)]
    dirs = []
    for j, d in enumerate(case["directions"]):
        if mirrored and case["flip"][j]:
            d = "maximize" if d == "minimize" else "minimize"
        dirs.append(d)
    sampler = programs.make_sampler(case["sampler"])
    pruner = programs.make_pruner(case["pruner"], mirror=mirrored and case["flip"][0])
    study = optuna.create_study(study_name="c13-study", directions=dirs, sampler=sampler, pruner=pruner)
    rec = programs.Recorder()
    obj = programs.make_objective(prog, rec, sign=sign, distinct=True, dyadic=True)
    study.optimize(obj, n_trials=case["n_trials"], catch=(ValueError,))
    out = []
    for t in study.get_trials(deepcopy=False):
        r = programs.trial_record(t)
        r["seen"] = rec.seen.get(t.number)
        out.append(r)
    return out, study


def run_pair(case: dict[str, Any], ctx: Ctx) -> None:
    sk = case["sampler"]["kind"]
    prog = case["program"]
    if sk == "brute":
        from props.c09_reproducible import _brute_leaves

        if _brute_leaves(prog) <= case["n_trials"]:
            case = dict(case, n_trials=max(1, _brute_leaves(prog) - 1))
    try:
        a, sa = run_side(case, False)
        b, sb = run_side(case, True)
    except (IndexError, KeyError, AssertionError, TypeError, ZeroDivisionError) as e:
        import traceback

        raise Violation("optimize-raises", f"sampler={case['sampler']} pruner={case['pruner']['kind']}: {type(e).__name__}: {e}\n{traceback.format_exc()[-1500:]}", case)
    flip = case["flip"]
    n_obj = prog["n_obj"]
    ctxt = f"sampler={case['sampler']} pruner={case['pruner']} directions={case['directions']} flip={flip}"
    if len(a) != len(b):
        raise Violation("mirror:number-of-trials", f"{ctxt}: {len(a)} vs {len(b)}", case)
    for x, y in zip(a, b):
        if not deep_eq(x["params"], y["params"]) or not deep_eq(x["seen"], y["seen"]):
            raise Violation("mirror:params-differ", f"{ctxt}: trial {x['number']}: {x['params']} vs mirrored run {y['params']}", case)
        if x["state"] != y["state"] or sorted(x["iv"]) != sorted(y["iv"]):
            raise Violation(
                "mirror:pruning-decision-differs",
                f"{ctxt}: trial {x['number']}: state {x['state']} with reported steps {sorted(x['iv'])} vs mirrored run {y['state']} with {sorted(y['iv'])}; intermediate values {x['iv']} vs {y['iv']}",
                case,
            )
        if x["values"] is not None:
            exp = [(-v if flip[j] else v) for j, v in enumerate(x["values"])]
            if not deep_eq(exp, y["values"]):
                raise Violation("mirror:values-not-negated", f"{ctxt}: trial {x['number']}: {x['values']} vs {y['values']}", case)
        if n_obj == 1 and flip[0]:
            if not deep_eq({k: -v for k, v in x["iv"].items()}, y["iv"]):
                raise Violation("mirror:intermediate-values-not-negated", f"{ctxt}: trial {x['number']}", case)
    if n_obj == 1:
        def best(s: Any) -> Any:
            try:
                return s.best_trial.number
            except ValueError:
                return None

        if best(sa) != best(sb):
            raise Violation("mirror:best_trial-differs", f"{ctxt}: {best(sa)} vs {best(sb)}", case)
    else:
        ba, bb = sorted(t.number for t in sa.best_trials), sorted(t.number for t in sb.best_trials)
        if ba != bb:
            raise Violation("mirror:best_trials-differ", f"{ctxt}: {ba} vs {bb}", case)
    pruned = sum(r["state"] == "PRUNED" for r in a)
    past = case["n_trials"] > max(case["sampler"]["n_startup"], case["sampler"]["pop"])
    ctx.case(
        fp=[case["program"], case["sampler"], case["pruner"], case["directions"], case["flip"], case["n_trials"]],
        nontrivial=pruned > 0 or past,
        classes=["sampler:" + sk, "pruner:" + case["pruner"]["kind"], f"obj{n_obj}", "pruned" if pruned else "nopruned"],
        sample=case,
    )
    ctx.event("pruning_decisions_mirrored", sum(len(r["iv"]) for r in a))


CHECKS = [
    Check("pair", lambda tier: case_pair(tier), run_pair, {"quick": 1600, "thorough": 40000}, budget_s={"quick": 120, "thorough": 2400}),
]
