"""C11  Distributions and parameter values round-trip through every encoding."""
from __future__ import annotations

import json
import math
import warnings
from fractions import Fraction
from typing import Any

import numpy as np
from hypothesis import strategies as st

from core import gen
from core.runner import Check, Ctx, Enum, Violation

ID = "C11"
LEVEL = "exploration"
RULE = (
    "Hypothesis generates a distribution spec (Float plain/log/stepped, Int with step/log, "
    "Categorical, and the five deprecated classes; bounds from clean decimals, full-precision "
    "doubles and results of float arithmetic such as 0.1+0.2; |x|<=1e9, steps>=1e-6, ints "
    "within 2^53), contained values, a second distribution, transform flags and points of the "
    "transformed box (corners, faces, interior). Oracles: JSON round trip equal + fixed point, "
    "internal/external repr identity, untransform(transform(p)) (exact index for ints/stepped/"
    "categorical, ulp tolerance for continuous), box points map into the domain (judged in "
    "exact rational arithmetic for stepped floats), compatibility/containment answers "
    "unchanged by a round trip. Non-trivial = the case involves a stepped, log or categorical "
    "distribution; distinct = distinct generated case (fingerprint of the whole case). The "
    "integer high-adjustment/containment helpers are enumerated exhaustively for "
    "|low|,|high|<=40, step<=12."
)
ASSUMPTIONS = [
    "ordinary magnitudes only: |bounds| <= 1e9, (high-low)/step <= 1e6, |low| <= 1e6*step, ints with |x| <= 2^52 so that high-low is exact in a double (1e9 for the transform)",
    "categorical choices are pairwise non-equal under == (True/1/1.0 aliasing is a documented limitation of CategoricalDistribution.to_internal_repr)",
    "box-point membership is claimed only with transform_log=True (the docstring says sampling from the transformed space requires it)",
]


def _eq_dist(a: Any, b: Any) -> bool:
    return a == b and type(a) is type(b)


def _same_value(a: Any, b: Any) -> bool:
    if isinstance(a, float) and isinstance(b, float) and math.isnan(a) and math.isnan(b):
        return True
    return type(a) is type(b) and a == b


# ------------------------------------------------------------------------------------------
# contained values of a distribution (as data)
# ------------------------------------------------------------------------------------------


@st.composite
def contained_values(draw: Any, spec: dict[str, Any], n: int = 4) -> list[Any]:
    d = gen.make_dist(spec)
    cls = gen.dist_class(spec)
    out: list[Any] = []
    if cls == "categorical":
        idx = draw(st.lists(st.integers(0, len(spec["choices"]) - 1), min_size=1, max_size=n))
        return [spec["choices"][i] for i in idx]
    if cls.startswith("int"):
        nsteps = (d.high - d.low) // d.step
        ks = draw(st.lists(st.integers(0, nsteps), min_size=1, max_size=n))
        out = [d.low + k * d.step for k in ks] + [d.low, d.high]
        return out
    if cls == "float_step":
        nsteps = int(round((d.high - d.low) / d.step))
        ks = draw(st.lists(st.integers(0, max(nsteps, 0)), min_size=1, max_size=n))
        out = [min(d.low + k * d.step, d.high) for k in ks] + [d.low, d.high]
        return out
    fr = draw(st.lists(st.floats(0, 1), min_size=1, max_size=n))
    for f in fr:
        v = d.low + f * (d.high - d.low)
        out.append(min(max(v, d.low), d.high))
    return out + [d.low, d.high]


@st.composite
def case_roundtrip(draw: Any) -> dict[str, Any]:
    spec = draw(gen.dist_spec())
    other = draw(st.one_of(gen.dist_spec(), st.just(spec)))
    vals = draw(contained_values(spec))
    probes = draw(st.lists(gen.any_float(1e6), max_size=3))
    return {"spec": spec, "other": other, "values": vals, "probes": probes}


def run_roundtrip(case: dict[str, Any], ctx: Ctx) -> None:
    import optuna.distributions as D

    warnings.simplefilter("ignore")
    spec = case["spec"]
    d = gen.make_dist(spec)
    cls = gen.dist_class(spec)
    ctx.case(
        fp=case,
        nontrivial=cls != "float",
        classes=[cls, "deprecated" if spec["kind"] not in ("Float", "Int", "Categorical") else "current"],
        sample=case,
    )
    j1 = D.distribution_to_json(d)
    d1 = D.json_to_distribution(j1)
    if not _eq_dist(d1, d):
        raise Violation("json-roundtrip-not-equal", f"{d!r} -> {j1} -> {d1!r}", case)
    j2 = D.distribution_to_json(d1)
    d2 = D.json_to_distribution(j2)
    if j2 != j1 or not _eq_dist(d2, d1):
        raise Violation("json-roundtrip-not-idempotent", f"{j1} -> {j2} -> {d2!r}", case)

    # abbreviated format parses to the same distribution
    if spec["kind"] in ("Float", "Int", "Categorical"):
        if cls == "categorical":
            ab = {"type": "categorical", "choices": list(d.choices)}
        elif cls.startswith("int"):
            ab = {"type": "int", "low": d.low, "high": d.high, "step": d.step, "log": d.log}
        else:
            ab = {"type": "float", "low": d.low, "high": d.high, "log": d.log}
            if d.step is not None:
                ab["step"] = d.step
        da = D.json_to_distribution(json.dumps(ab))
        if not _eq_dist(da, d):
            raise Violation("abbreviated-json-differs", f"{ab} -> {da!r} != {d!r}", case)

    # internal / external representation
    for v in case["values"]:
        try:
            iv = d.to_internal_repr(v)
        except ValueError as e:
            raise Violation("to_internal-rejects-member", f"{d!r} value {v!r}: {e}", case)
        if not isinstance(iv, (int, float)):
            raise Violation("internal-repr-not-number", f"{d!r} {v!r} -> {iv!r}", case)
        if not d._contains(iv):
            raise Violation("contains-rejects-member", f"{d!r} value {v!r} internal {iv!r}", case)
        ev = d.to_external_repr(iv)
        if not _same_value(ev, v):
            raise Violation("external-of-internal-differs", f"{d!r}: {v!r} -> {iv!r} -> {ev!r}", case)
        # same answers from the round-tripped distribution
        if d1._contains(iv) is not True or not _same_value(d1.to_external_repr(d1.to_internal_repr(v)), v):
            raise Violation("roundtripped-dist-treats-value-differently", f"{d!r}/{d1!r}: {v!r}", case)

    # containment answers before / after the JSON round trip
    if cls != "categorical":
        for p in list(case["probes"]) + [d.low, d.high]:
            a, b = d._contains(float(p)), d1._contains(float(p))
            if a != b:
                raise Violation("contains-changes-after-roundtrip", f"{d!r} vs {d1!r} at {p!r}: {a} {b}", case)
    if d.single() != d1.single():
        raise Violation("single-changes-after-roundtrip", f"{d!r} vs {d1!r}", case)

    # compatibility answers before / after
    e = gen.make_dist(case["other"])
    e1 = D.json_to_distribution(D.distribution_to_json(e))

    def compat(x: Any, y: Any) -> str:
        try:
            D.check_distribution_compatibility(x, y)
            return "ok"
        except ValueError:
            return "ValueError"

    for x, y, x1, y1 in ((d, e, d1, e1), (e, d, e1, d1), (d, d1, d1, d)):
        if compat(x, y) != compat(x1, y1):
            raise Violation("compatibility-changes-after-roundtrip", f"{x!r} {y!r}", case)
    if compat(d, d1) != "ok":
        raise Violation("incompatible-with-own-roundtrip", f"{d!r} {d1!r}", case)


# ------------------------------------------------------------------------------------------
# search-space transform
# ------------------------------------------------------------------------------------------


def _small(spec: dict[str, Any]) -> dict[str, Any]:
    return spec


@st.composite
def case_transform(draw: Any) -> dict[str, Any]:
    n = draw(st.integers(1, 4))
    specs = []
    for _ in range(n):
        specs.append(
            draw(
                st.one_of(
                    gen.float_plain_spec(),
                    gen.float_log_spec(),
                    gen.float_step_spec(max_steps=10**6),
                    gen.float_step_spec(max_steps=50),
                    gen.int_spec(max_abs=10**9),
                    gen.categorical_spec(5),
                )
            )
        )
    vals = [draw(contained_values(s, n=1))[0] for s in specs]
    flags = {
        "log": draw(st.booleans()),
        "step": draw(st.booleans()),
        "unit": draw(st.booleans()),
    }
    # box points: per encoded column a position in {0, 1, interior}
    pts = draw(
        st.lists(
            st.lists(
                st.one_of(st.sampled_from([0.0, 1.0, 0.5]), st.floats(0, 1)),
                min_size=24,
                max_size=24,
            ),
            min_size=1,
            max_size=4,
        )
    )
    return {"specs": specs, "values": vals, "flags": flags, "points": pts}


def _member(d: Any, cls: str, v: Any) -> str | None:
    """None if v is a member of the domain of d (with the slack the statement allows)."""
    if cls == "categorical":
        return None if any(v is c or _same_value(v, c) for c in d.choices) else "not a choice"
    if cls.startswith("int"):
        if not isinstance(v, int) or isinstance(v, bool):
            return f"type {type(v).__name__} is not int"
        if not (d.low <= v <= d.high):
            return "out of range"
        if (v - d.low) % d.step != 0:
            return "off the step lattice"
        return None
    if not isinstance(v, float):
        return f"type {type(v).__name__} is not a float"
    v = float(v)
    if math.isnan(v):
        return "nan"
    if cls == "float_log":
        # exp(log(x)) is off by up to (|log x| + 2) ulps of x by plain error propagation, so
        # "a few ulps" is read as 4 + |log(bound)| ulps (at most 25 for bounds <= 1e9).
        nl = 4 + abs(math.log(d.low))
        nh = 4 + abs(math.log(d.high))
        lo = d.low - nl * math.ulp(d.low)
        hi = d.high + nh * math.ulp(d.high)
        return None if lo <= v <= hi else "outside [low, high] by more than 4+|log| ulps"
    if not (d.low <= v <= d.high):
        return "out of range"
    if cls == "float_step":
        fl, fs, fv = Fraction(d.low), Fraction(d.step), Fraction(v)
        k = round((fv - fl) / fs)
        err = abs(fv - (fl + k * fs))
        # a grid point reached through a normalised coordinate (GPSampler: scale to [0, 1], round,
        # scale back) carries the rounding of several operations at the magnitude of the bounds:
        # up to ~10 ulps were observed on the unchanged tree; 16 ulps of the largest magnitude
        # involved is still 1e-9 of any step this generator produces
        # (19 ulps on a grid of 150 cells near 260: the error grows with the number of cells;
        # a billionth of a step -- a tenth of optuna's own `_contains` slack -- covers that without
        # hiding anything a user could see)
        tol = max(16 * Fraction(math.ulp(max(abs(d.low), abs(d.high), abs(v)))), Fraction(d.step) / 10**9)
        if err > tol:
            return f"off the step grid by {float(err):.3g}"
    return None


def run_transform(case: dict[str, Any], ctx: Ctx) -> None:
    from optuna._transform import _SearchSpaceTransform

    warnings.simplefilter("ignore")
    specs = case["specs"]
    dists = [gen.make_dist(s) for s in specs]
    classes = [gen.dist_class(s) for s in specs]
    space = {f"p{i}": d for i, d in enumerate(dists)}
    params = {f"p{i}": v for i, v in enumerate(case["values"])}
    fl = case["flags"]
    ctx.case(
        fp=case,
        nontrivial=any(c != "float" for c in classes),
        classes=sorted(set(classes)) + [f"flags:{int(fl['log'])}{int(fl['step'])}{int(fl['unit'])}"],
        sample=case,
    )
    tr = _SearchSpaceTransform(space, fl["log"], fl["step"], fl["unit"])
    t = tr.transform(params)
    b = tr.bounds
    if t.shape != (b.shape[0],):
        raise Violation("transform-shape", f"{t.shape} vs {b.shape}", case)
    raw = tr._raw_bounds
    for col in range(len(t)):
        lo, hi = b[col]
        slack = 8 * np.finfo(float).eps * max(1.0, abs(lo), abs(hi))
        if not (lo - slack <= t[col] <= hi + slack):
            raise Violation("transformed-param-outside-bounds", f"col {col}: {t[col]!r} not in [{lo!r}, {hi!r}]", case)
    back = tr.untransform(t)
    for i, (name, d) in enumerate(space.items()):
        cls, p, q = classes[i], params[name], back[name]
        col = tr.column_to_encoded_columns[i][0]
        if cls == "int_log" and not fl["log"] and fl["unit"]:
            # untransform of a log int without transform_log truncates instead of rounding and
            # does not clip; optuna's own tests skip that combination explicitly
            # (tests/test_transform.py: "conditions that do not clip") and no caller
            # untransforms with transform_log=False.  Not demanded here.
            ctx.sound_skip("int-log untransform with transform_log=False and transform_0_1=True")
            continue
        if cls == "categorical" or cls.startswith("int"):
            if not _same_value(q, p):
                raise Violation("untransform-transform-differs", f"{d!r} flags {fl}: {p!r} -> {q!r}", case)
            continue
        if not isinstance(q, float):
            raise Violation("untransform-type", f"{d!r}: {q!r}", case)
        q = float(q)
        if cls == "float_step":
            kp = round((Fraction(p) - Fraction(d.low)) / Fraction(d.step))
            kq = round((Fraction(q) - Fraction(d.low)) / Fraction(d.step))
            if kp != kq or gen.ulp_dist(p, q) > 4 and abs(p - q) > 4 * math.ulp(max(abs(d.low), abs(d.high))):
                raise Violation("untransform-transform-differs", f"{d!r} flags {fl}: {p!r} (k={kp}) -> {q!r} (k={kq})", case)
            continue
        # continuous: tolerance in ulps; high maps to the double just below it by design
        eps = np.finfo(float).eps
        if cls == "float_log" and fl["log"]:
            tol = 4 * eps * max(1.0, abs(math.log(p))) * abs(p)
        else:
            tol = 2 * math.ulp(p)
        if fl["unit"]:
            lo_, hi_ = raw[col]
            scale = max(abs(lo_), abs(hi_))
            extra = 8 * eps * scale
            tol = tol + (extra * abs(p) if (cls == "float_log" and fl["log"]) else extra)
        if abs(q - p) > tol:
            raise Violation(
                "untransform-transform-differs",
                f"{d!r} flags {fl}: {p!r} -> {q!r} (diff {abs(q-p):.3g} > tol {tol:.3g})",
                case,
            )
    # box points -> members of the domain (sampling configuration only)
    if not fl["log"]:
        return
    for pt in case["points"]:
        u = np.array(pt[: b.shape[0]] + [0.5] * max(0, b.shape[0] - len(pt)))
        x = b[:, 0] + u * (b[:, 1] - b[:, 0])
        x = np.minimum(np.maximum(x, b[:, 0]), b[:, 1])
        out = tr.untransform(x)
        for i, (name, d) in enumerate(space.items()):
            why = _member(d, classes[i], out[name])
            if why is not None:
                raise Violation(
                    "box-point-maps-outside-domain",
                    f"{d!r} flags {fl} point {x[tr.column_to_encoded_columns[i]].tolist()!r} -> {out[name]!r}: {why}",
                    case,
                )
        ctx.event("box_points")


# ------------------------------------------------------------------------------------------
# exhaustive integer helpers
# ------------------------------------------------------------------------------------------


def enum_int(ctx: Ctx, tier: str, shard: int, nshards: int) -> None:
    import optuna.distributions as D

    warnings.simplefilter("ignore")
    R = 40
    n = 0
    for low in range(-R, R + 1):
        if (low + R) % nshards != shard:
            continue
        for high in range(low, R + 1):
            for step in range(1, 13):
                d = D.IntDistribution(low, high, step=step)
                exp_high = max(v for v in range(low, high + 1) if (v - low) % step == 0)
                members = set(range(low, exp_high + 1, step))
                case = {"low": low, "high": high, "step": step}
                if d.high != exp_high or d.low != low or d.step != step:
                    raise Violation("int-high-adjust", f"{case} -> {d!r}, expected high {exp_high}", case)
                if D._adjust_int_uniform_high(low, high, step) != exp_high:
                    raise Violation("int-high-adjust", f"{case}", case)
                for v in range(low - 2, high + 3):
                    if d._contains(float(v)) != (v in members):
                        raise Violation("int-contains", f"{d!r} value {v}", case)
                    if v in members and d.to_external_repr(d.to_internal_repr(v)) != v:
                        raise Violation("int-repr", f"{d!r} value {v}", case)
                if d.single() != (len(members) == 1):
                    raise Violation("int-single", f"{d!r}", case)
                d1 = D.json_to_distribution(D.distribution_to_json(d))
                if not _eq_dist(d, d1):
                    raise Violation("json-roundtrip-not-equal", f"{d!r} {d1!r}", case)
                n += 1
                if low >= 1 and step == 1:
                    dl = D.IntDistribution(low, high, log=True)
                    if dl.high != high or dl.single() != (low == high):
                        raise Violation("int-log", f"{dl!r}", case)
    ctx.case(fp=f"enum-int-{shard}", nontrivial=True, n=n, classes=["enum_int_dists"])
    ctx.exhaustive_parts.append("IntDistribution(low, high, step) for -40<=low<=high<=40, 1<=step<=12: high adjustment, _contains, single, repr, JSON")


def replay_enum_int(case: dict[str, Any], ctx: Ctx) -> None:
    import optuna.distributions as D

    d = D.IntDistribution(case["low"], case["high"], step=case["step"])
    exp_high = max(v for v in range(case["low"], case["high"] + 1) if (v - case["low"]) % case["step"] == 0)
    if d.high != exp_high:
        raise Violation("int-high-adjust", f"{case} -> {d!r}", case)


CHECKS = [
    Check("roundtrip", lambda tier: case_roundtrip(), run_roundtrip, {"quick": 16000, "thorough": 1200000},
          budget_s={"quick": 100, "thorough": 1500}),
    Check("transform", lambda tier: case_transform(), run_transform, {"quick": 8000, "thorough": 600000},
          budget_s={"quick": 100, "thorough": 1500}),
]
ENUMS = [Enum("enum_int", enum_int)]
REPLAY = {"enum_int": replay_enum_int}
