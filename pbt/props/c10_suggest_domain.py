"""C10  Suggested values lie in the declared domain, are stable and are what gets stored."""
from __future__ import annotations

import math
import warnings
from typing import Any

from hypothesis import strategies as st

from core import backends, gen, programs
from core.model import deep_eq
from core.runner import Check, Ctx, Violation
from props.c11_roundtrip import _member

ID = "C10"
LEVEL = "exploration"
RULE = (
    "Hypothesis generates 1-3 parameters with adversarial distributions (floats with ordinary, "
    "tiny (a few ulps wide), huge and negative ranges, log ranges over many decades and within "
    "1 +- 1e-4, steps that do not divide the range, decimal and binary steps, single-point "
    "domains; ints with steps and log; categoricals over None/bool/int/float/str), a plan of "
    "4-14 trials in which earlier trials may use a *different* range for the same name, are "
    "enqueued with fixed member values (fully or partially), are pruned or fail, a seeded "
    "sampler (Random, TPE plain/multivariate/group/constant-liar, NSGA-II with every "
    "crossover, NSGA-III, QMC, PartialFixed, BruteForce on discrete spaces; GP in the thorough "
    "tier) so that both independent and relative sampling occur, and a backend (in-memory, "
    "SQLite, journal file, gRPC over in-memory). Oracle: every value returned by suggest_* is a "
    "member of the declared domain (exact-rational grid test for stepped floats, Python int on "
    "the lattice, identical choice; log floats within 4+|log| ulps of the bounds), the second "
    "suggest of a name returns the same value, an enqueued / fixed value is returned verbatim, "
    "and trial.params[name] and study.trials[i].params[name] read back from the backend equal "
    "what the objective got (value and type). Non-trivial = a suggestion made after start-up "
    "or in relative mode; distinct = distinct case. The integer helper sub-domain is enumerated "
    "exhaustively in C11."
)
ASSUMPTIONS = [
    "ordinary magnitudes: |bounds| <= 1e9, (high-low)/step <= 1e6, ints within +-1e9",
    "enqueued / fixed values are members of the trial's domain",
    "n_jobs=1",
]

CROSSOVERS = ["uniform", "blxalpha", "spx", "sbx", "vsbx", "undx"]
SAMPLERS = ["random", "tpe", "tpe", "tpe_mv", "tpe_group", "tpe_cl", "nsgaii", "nsgaii_x", "nsgaiii", "qmc_halton", "qmc_sobol_scr", "partial_fixed"]


@st.composite
def _decimal_grid(draw: Any) -> dict[str, Any]:
    """Short decimal grids (0.1, 0.2, 0.3 / 0.1 .. 0.7 step 0.2 ...): few cells, so the top and
    bottom cells are sampled often, and low + k*step is typically not exactly representable."""
    step = draw(st.sampled_from([0.1, 0.2, 0.3, 0.05, 0.7, 0.01, 1.1]))
    a = draw(st.integers(-5, 5))
    n = draw(st.integers(1, 4))
    from decimal import Decimal

    low = float(Decimal(str(step)) * a)
    high = float(Decimal(str(step)) * (a + n))
    return {"kind": "Float", "low": low, "high": high, "log": False, "step": step}


@st.composite
def _extreme_grid(draw: Any) -> dict[str, Any]:
    """Step grids at both ends of the scale: 5e7 .. 2e9 cells (where (value - low) / step is no
    longer exact to 1e-8) and steps of 1e-10 .. 2.5e-8 on ranges a few steps wide (where absolute
    tolerances of 1e-8 are larger than a step).  With a second grid of twice / half the step on
    the same range for the same name."""
    if draw(st.booleans()):
        step = draw(st.sampled_from([0.001, 0.002, 0.01, 0.25, 1e-4, 0.5]))
        n = draw(st.integers(5 * 10**7, int(9e8 / max(step, 0.45))))
        low = draw(st.sampled_from([0.0, 0.0, -1000.0, 1.0]))
        high = low + n * step + draw(st.sampled_from([0.0, 0.0, 0.3])) * step
    else:
        step = draw(st.sampled_from([3e-9, 1e-9, 7e-9, 2.5e-8, 1e-10]))
        n = draw(st.integers(1, 12))
        low = draw(st.sampled_from([0.0, 0.0, 1e-8, -1e-8]))
        high = low + (n + draw(st.sampled_from([0.0, 0.34, 0.5, 0.9]))) * step
    spec = {"kind": "Float", "low": low, "high": high, "log": False, "step": step, "extreme": True}
    f = draw(st.sampled_from([2.0, 0.5]))
    return {"spec": spec, "alt": {**spec, "step": step * f}}


@st.composite
def param_spec(draw: Any) -> dict[str, Any]:
    if draw(st.integers(0, 7)) == 0:
        return draw(_extreme_grid())
    spec = draw(
        st.one_of(
            _decimal_grid(),
            _decimal_grid(),
            gen.float_plain_spec(),
            gen.float_plain_spec(),
            gen.float_log_spec(),
            gen.float_step_spec(max_steps=10**4),
            gen.float_step_spec(max_steps=30),
            gen.int_spec(max_abs=10**9),
            gen.categorical_spec(5),
        )
    )
    alt = None
    k = spec["kind"]
    if k == "Float" and draw(st.booleans()):
        if spec["log"]:
            alt = draw(gen.float_log_spec())
        elif spec["step"] is not None:
            alt = draw(st.one_of(gen.float_step_spec(max_steps=100), gen.float_plain_spec()))
        else:
            alt = draw(st.one_of(gen.float_plain_spec(), gen.float_plain_spec().map(lambda s: {**s, "low": s["low"] * 1e6 if abs(s["low"]) < 1e3 else s["low"], "high": max(s["high"] * 1e6, s["low"] * 1e6) if abs(s["high"]) < 1e3 else s["high"]})))
        if alt["low"] > alt["high"]:
            alt = None
    elif k == "Int" and draw(st.booleans()):
        alt = draw(gen.int_spec(max_abs=10**9))
        if alt["log"] != spec["log"]:
            alt = None
    return {"spec": _ordinary(spec), "alt": None if alt is None else _ordinary(alt)}


def _ordinary(spec: dict[str, Any]) -> dict[str, Any]:
    """Keeps plain float ranges within 'ordinary magnitudes': no subnormal-sized bounds or widths
    (a range such as [0, 5e-324] combined with a history around 1e6 makes the TPE kernel evaluate
    z-scores beyond 1e154, which is outside anything the property means by a valid distribution)."""
    if spec["kind"] != "Float" or spec.get("log") or spec.get("step") is not None:
        return spec
    lo, hi = spec["low"], spec["high"]
    lo = 0.0 if abs(lo) < 1e-6 else lo
    hi = 0.0 if abs(hi) < 1e-6 else hi
    if hi < lo:
        lo, hi = hi, lo
    if 0 < hi - lo < 1e-25:
        hi = lo
    return {**spec, "low": lo, "high": hi}


@st.composite
def case_study(draw: Any, tier: str = "quick") -> dict[str, Any]:
    n_par = draw(st.integers(1, 3))
    params = [draw(param_spec()) for _ in range(n_par)]
    kinds = SAMPLERS + (["gp"] if tier == "thorough" else [])
    discrete = all(gen.dist_class(p["spec"]) in ("float_step", "int", "int_step", "categorical", "int_log") for p in params)
    def _size(spec: dict[str, Any]) -> float:
        if spec["kind"] == "Categorical":
            return len(spec["choices"])
        return (spec["high"] - spec["low"]) / (spec["step"] or 1) + 1

    if discrete and all(_size(p["spec"]) <= 64 and (p["alt"] is None or _size(p["alt"]) <= 64) for p in params):
        kinds = kinds + ["brute"]  # (the sampler enumerates every candidate: small domains only)
    sk = draw(st.sampled_from(kinds))
    # NSGA-II/III re-draw a child until it is contained in the search space; for a log range only
    # a few ulps wide exp(log(x)) never is, and the loop does not terminate (a hang, outside the
    # listed properties: DESIGN.md section 6.2).  Such ranges are not combined with GA samplers.
    if sk.startswith("nsga") and any(
        p["spec"].get("log") and p["spec"]["kind"] == "Float" and p["spec"]["high"] <= p["spec"]["low"] * (1 + 1e-12) and p["spec"]["high"] > p["spec"]["low"] for p in params
    ):
        sk = "tpe"
    if sk == "gp" and any(p["spec"].get("extreme") for p in params):
        sk = "tpe"  # (the GP sampler enumerates the cells of a stepped parameter)
    n = draw(st.integers(4, 14))
    trials = []
    # per parameter either a scattered use of the alternative range in the first half of the study,
    # or a switch: every trial before trial s uses the alternative, every later one the main
    # range (the relative search space is then the alternative's when the name first comes with
    # the main range)
    switch = [draw(st.one_of(st.none(), st.integers(2, max(2, n - 2)))) if p["alt"] is not None else None for p in params]
    for i in range(n):
        late = i >= n // 2
        trials.append(
            {
                "use_alt": [(i < switch[j]) if switch[j] is not None else ((not late) and p["alt"] is not None and draw(st.integers(0, 2)) == 0) for j, p in enumerate(params)],
                "end": draw(st.sampled_from(["complete", "complete", "complete", "prune", "fail"])),
                "enqueue": draw(st.one_of(st.none(), st.none(), st.lists(st.one_of(st.none(), st.floats(0, 1)), min_size=n_par, max_size=n_par))),
                "value": draw(st.integers(-5, 5)),
                # first ask for the name with a distribution of another class (the storage rejects
                # it: incompatible with the earlier trials), catch the error, then ask properly
                "bad_first": [draw(st.integers(0, 7)) == 0 for _ in params],
            }
        )
    return {
        "params": params,
        "trials": trials,
        "sampler": {"kind": sk, "seed": draw(st.integers(0, 2**31 - 1)), "n_startup": draw(st.integers(1, 4)), "pop": draw(st.integers(2, 4)), "crossover": draw(st.sampled_from(CROSSOVERS)), "fixed_frac": draw(st.floats(0, 1))},
        "n_obj": draw(st.sampled_from([1, 1, 2])),
        "backend": draw(st.sampled_from(["inmemory", "inmemory", "sqlite", "journal_file", "grpc:inmemory"])),
    }


def member_value(spec: dict[str, Any], frac: float) -> Any:
    d = gen.make_dist(spec)
    cls = gen.dist_class(spec)
    if cls == "categorical":
        return spec["choices"][min(int(frac * len(spec["choices"])), len(spec["choices"]) - 1)]
    if cls.startswith("int"):
        n = (d.high - d.low) // d.step
        return int(d.low + min(int(frac * (n + 1)), n) * d.step)
    if cls == "float_step":
        n = int(round((d.high - d.low) / d.step))
        return float(min(d.low + min(int(frac * (n + 1)), n) * d.step, d.high))
    if frac >= 1.0:
        return float(d.high)
    v = d.low + frac * (d.high - d.low)
    return float(min(max(v, d.low), d.high))


def make_sampler(s: dict[str, Any], params: list[Any]) -> Any:
    import optuna

    S = optuna.samplers
    with warnings.catch_warnings():
        warnings.simplefilter("ignore")
        if s["kind"] == "nsgaii_x":
            X = S.nsgaii
            cx = {"uniform": X.UniformCrossover, "blxalpha": X.BLXAlphaCrossover, "spx": X.SPXCrossover, "sbx": X.SBXCrossover, "vsbx": X.VSBXCrossover, "undx": X.UNDXCrossover}[s["crossover"]]()
            pop = max(s["pop"], 3 if s["crossover"] in ("spx", "undx") else 2)
            return S.NSGAIISampler(seed=s["seed"], population_size=pop, crossover=cx)
        if s["kind"] == "partial_fixed":
            p0 = params[0]
            return S.PartialFixedSampler({"p0": member_value(p0["spec"], s["fixed_frac"])}, S.TPESampler(seed=s["seed"], n_startup_trials=s["n_startup"], n_ei_candidates=8))
        return programs.make_sampler({**s, "base": "random"})


def run_study(case: dict[str, Any], ctx: Ctx) -> None:
    import optuna

    optuna.logging.set_verbosity(optuna.logging.ERROR)
    warnings.simplefilter("ignore")
    params = case["params"]
    names = [f"p{i}" for i in range(len(params))]
    plan = case["trials"]
    sk = case["sampler"]["kind"]
    seen: dict[int, dict[str, Any]] = {}
    relative_used = [0]
    fixed_value = member_value(params[0]["spec"], case["sampler"]["fixed_frac"]) if sk == "partial_fixed" else None

    def objective(trial: Any) -> Any:
        pl = plan[min(trial.number, len(plan) - 1)]
        if sk == "partial_fixed":
            pl = {**pl, "use_alt": [False] + list(pl["use_alt"][1:])}  # the fixed value belongs to p0's own range
        got: dict[str, Any] = {}
        enq = trial.system_attrs.get("fixed_params", {})
        for i, (name, p) in enumerate(zip(names, params)):
            spec = p["alt"] if pl["use_alt"][i] else p["spec"]
            if pl.get("bad_first", [False] * len(params))[i] and trial.number >= 1 and name not in enq and sk != "brute":
                try:
                    if spec["kind"] == "Categorical":
                        trial.suggest_int(name, 0, 3)
                    else:
                        trial.suggest_categorical(name, ["u", "v"])
                    rejected = False
                except Exception:
                    # ValueError from the storage's compatibility check, or whatever a model-based
                    # sampler raises when the history holds another kind of value for this name
                    rejected = True
                if rejected:
                    ctx.event("rejected_suggestion_then_retry")
                    if name in trial.params:
                        raise Violation("rejected-suggestion-left-in-trial.params", f"trial {trial.number} param {name}: the storage rejected the distribution but trial.params holds {trial.params[name]!r}", case)
                else:
                    got[name] = trial.params[name]
                    continue
            if spec["kind"] == "Categorical":
                v = trial.suggest_categorical(name, spec["choices"])
                v2 = trial.suggest_categorical(name, spec["choices"])
            elif spec["kind"] == "Int":
                v = trial.suggest_int(name, spec["low"], spec["high"], step=spec["step"], log=spec["log"])
                v2 = trial.suggest_int(name, spec["low"], spec["high"], step=spec["step"], log=spec["log"])
            else:
                v = trial.suggest_float(name, spec["low"], spec["high"], step=spec["step"], log=spec["log"])
                v2 = trial.suggest_float(name, spec["low"], spec["high"], step=spec["step"], log=spec["log"])
            d = gen.make_dist(spec)
            cls = gen.dist_class(spec)
            where = f"trial {trial.number} param {name} {d!r} sampler={case['sampler']} backend={case['backend']}"
            why = _member(d, cls, v)
            if why is not None:
                raise Violation("suggested-value-outside-domain:" + (sk if sk != "nsgaii_x" else "nsgaii"), f"{where}: suggest returned {v!r}: {why}", case)
            if not _same(v, v2):
                raise Violation("second-suggest-differs", f"{where}: {v!r} then {v2!r}", case)
            if name in enq and not pl["use_alt"][i]:
                if not _same(enq[name], v) and not (isinstance(v, int) and not isinstance(v, bool) and isinstance(enq[name], float) and enq[name] == v):
                    raise Violation("enqueued-value-not-returned", f"{where}: enqueued {enq[name]!r}, suggest returned {v!r}", case)
                ctx.event("enqueued_value_checked")
            elif fixed_value is not None and name == "p0" and not pl["use_alt"][0]:
                if not _same(v, fixed_value):
                    raise Violation("fixed-value-not-returned", f"{where}: fixed {fixed_value!r}, got {v!r}", case)
            # (trial.params of an enqueued int given as 3.0 holds the float: equal, not identical)
            if not _same(trial.params[name], v) and not (_is_num(v) and _is_num(trial.params[name]) and trial.params[name] == v):
                raise Violation("trial.params-differs", f"{where}: suggest {v!r}, trial.params {trial.params[name]!r}", case)
            if name in getattr(trial, "relative_params", {}):
                relative_used[0] += 1
            got[name] = v
        seen[trial.number] = got
        if pl["end"] == "fail":
            raise ValueError("fails")
        if pl["end"] == "prune":
            raise optuna.TrialPruned()
        return float(pl["value"]) if case["n_obj"] == 1 else [float(pl["value"]), float(trial.number % 3)]

    fac = backends.factory(ctx.tmpdir())
    try:
        storage = fac.make(case["backend"])
        sampler = make_sampler(case["sampler"], params)
        study = optuna.create_study(storage=storage, study_name="c10", sampler=sampler, directions=["minimize"] * case["n_obj"])
        for i, pl in enumerate(plan):
            if pl["enqueue"] is not None and not any(pl["use_alt"]):
                fixed = {n: member_value(p["spec"], f) for n, p, f in zip(names, params, pl["enqueue"]) if f is not None}
                # an integral float is a valid way to enqueue an integer parameter
                kinds = {n: p["spec"]["kind"] for n, p in zip(names, params)}
                fixed = {n: (float(v) if kinds[n] == "Int" and abs(v) < 2**50 and i % 2 == 0 else v) for n, v in fixed.items()}
                if fixed:
                    study.enqueue_trial(fixed)
            try:
                study.optimize(objective, n_trials=1, catch=(ValueError,))
            except ValueError as e:
                # BruteForce refuses spaces that change between trials (documented)
                if sk == "brute":
                    ctx.sound_skip("BruteForceSampler with a changing search space")
                    break
                raise
        # what the study recorded equals what the objective received, on the backend
        for t in study.get_trials(deepcopy=True):
            if t.number not in seen:
                continue
            for name, v in seen[t.number].items():
                sv = t.params.get(name, "<missing>")
                if not _same(sv, v):
                    raise Violation("stored-param-differs", f"backend={case['backend']} trial {t.number} param {name}: objective received {v!r} ({type(v).__name__}), study.trials holds {sv!r} ({type(sv).__name__})", case)
                # membership of the recorded value in the recorded distribution, by the same exact
                # oracle as above (optuna's own `_contains` is a heuristic with a tolerance of 1e-8
                # cells, which rejects true grid points of grids beyond ~1e8 cells)
                sd = t.distributions[name]
                why = _member(sd, gen.dist_class(_spec_of(sd)), sv)
                if why is not None:
                    raise Violation("stored-param-not-contained", f"trial {t.number} {name}: {sv!r} not in {sd!r}: {why}", case)
        classes = sorted({gen.dist_class(p["spec"]) for p in params})
        ctx.case(
            fp=case,
            nontrivial=relative_used[0] > 0 or len(plan) > case["sampler"]["n_startup"],
            classes=classes + ["sampler:" + sk, case["backend"], "relative" if relative_used[0] else "independent-only", "alt-range-history" if any(any(pl["use_alt"]) for pl in plan) else "fixed-ranges"],
            sample=case,
        )
        ctx.event("suggestions", sum(len(v) for v in seen.values()))
    finally:
        fac.release()


def _is_num(x: Any) -> bool:
    return isinstance(x, (int, float)) and not isinstance(x, bool)


def _same(a: Any, b: Any) -> bool:
    """Equal value and kind: floats (numpy float64 is a float) compare numerically, ints must be
    ints, everything else by type and value."""
    if isinstance(a, float) and isinstance(b, float):
        return deep_eq(float(a), float(b))
    return type(a) is type(b) and deep_eq(a, b)


def _spec_of(d: Any) -> dict[str, Any]:
    from core.storage_ops import dist_to_spec

    return dist_to_spec(d)


CHECKS = [
    Check("study", lambda tier: case_study(tier), run_study, {"quick": 1200, "thorough": 40000}, budget_s={"quick": 150, "thorough": 2400}),
]
