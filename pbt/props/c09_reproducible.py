"""C09  Optimisation is reproducible from the seed and independent of the storage."""
from __future__ import annotations

import json
import os
import subprocess
import sys
import warnings
from typing import Any

from hypothesis import strategies as st

from core import backends, programs
from core.model import deep_eq
from core.runner import Check, Ctx, Violation, dec, enc

ID = "C09"
LEVEL = "exploration"
RULE = (
    "Hypothesis generates a deterministic define-by-run program (conditional parameter tree over "
    "float / log / stepped / int / categorical suggestions, reports with pruning checks, failures "
    "raised as a function of the parameters and caught, 1-3 objective values), a seeded sampler "
    "(Random, TPE plain / multivariate / group / constant-liar, NSGA-II with two crossovers, "
    "NSGA-III, QMC halton / sobol / scrambled, BruteForce, PartialFixed; GP in the thorough tier) "
    "and a pruner (Nop, Median, Percentile, SHA, Hyperband, Patient, Threshold, Wilcoxon), 6-24 "
    "trials. Baseline = fresh in-memory storage, one optimize() call. Variants that must give the "
    "identical sequence of (params seen by the objective, stored params, intermediate values, "
    "state, values): the same configuration again; another process with a different "
    "PYTHONHASHSEED; SQLite, journal file, journal redis and the gRPC proxy over in-memory / "
    "SQLite / journal; storages pre-populated with another study (trial ids differ from "
    "numbers); the run split into several optimize() calls. Then copy_study to other backends "
    "must reproduce every trial field and the study's directions and attributes. Non-trivial = "
    "the run gets past the sampler's start-up phase on a non-baseline variant; distinct = "
    "distinct (program, sampler, pruner)."
)
ASSUMPTIONS = [
    "the study name is held fixed (Hyperband hashes it into the bracket); n_jobs=1",
    "CmaEsSampler is excluded (cmaes is not installed); GridSampler is covered by C14",
    "BruteForceSampler only gets finite programs and, when the run is split, more leaves than trials",
]

VARIANT_KINDS = ["repeat", "sqlite", "journal_file", "journal_redis", "grpc:inmemory", "grpc:sqlite", "grpc:journal_file", "offset:inmemory", "offset:journal_file", "offset:sqlite", "split", "process"]
GA = ("nsgaii", "nsgaii_sbx", "nsgaiii")
# samplers whose behaviour depends on the order of a trial's params/distributions (the order of
# suggestion): BruteForce rebuilds its tree from it, QMC maps its dimensions in that order
ORDER_DEPENDENT = ("brute", "qmc_halton", "qmc_sobol", "qmc_sobol_scr")


@st.composite
def case_run(draw: Any, tier: str = "quick") -> dict[str, Any]:
    kinds = list(programs.SAMPLER_KINDS) + (["gp"] if tier == "thorough" else [])
    sampler = draw(programs.sampler_spec(kinds))
    prog = draw(programs.program(discrete_only=sampler["kind"] == "brute"))
    # (NSGA-II/III under HyperbandPruner raise KeyError/IndexError on every storage: not generated, see DESIGN.md)
    pruner = draw(programs.pruner_spec([k for k in programs.PRUNER_KINDS if not (k == "hyperband" and sampler["kind"] in ("nsgaii", "nsgaii_sbx", "nsgaiii"))]))
    n = draw(st.integers(6, 24 if sampler["kind"] != "gp" else 10))
    variants = draw(st.lists(st.sampled_from(VARIANT_KINDS), min_size=3, max_size=4, unique=True))
    # samplers that build search spaces / groups / populations from sets and dicts are the ones a
    # hash-seed dependence would hide in: they always get the other-process variant
    if sampler["kind"] in ("tpe_group", "tpe_mv", "nsgaii", "nsgaii_sbx", "nsgaiii", "brute") and "process" not in variants:
        variants = variants[:3] + ["process"]
    return {
        "program": prog,
        "sampler": sampler,
        "pruner": pruner,
        "n_trials": n,
        "directions": [draw(st.sampled_from(["minimize", "maximize"])) for _ in range(prog["n_obj"])],
        "variants": variants,
        "splits": draw(st.lists(st.integers(1, 10), min_size=1, max_size=3)),
        "offset": draw(st.integers(1, 5)),
        "copy_to": draw(st.sampled_from(["sqlite", "journal_file", "grpc:inmemory", "inmemory"])),
        "hashseed": draw(st.integers(1, 1000)),
    }


def run_one(case: dict[str, Any], storage: Any, splits: list[int] | None = None) -> tuple[list[Any], Any]:
    """Runs the configuration on `storage`; returns ([record per trial], study)."""
    import optuna

    optuna.logging.set_verbosity(optuna.logging.ERROR)
    warnings.simplefilter("ignore")
    prog = case["program"]
    rec = programs.Recorder()
    sampler = programs.make_sampler(case["sampler"])
    pruner = programs.make_pruner(case["pruner"])
    study = optuna.create_study(storage=storage, study_name="c09-study", directions=case["directions"], sampler=sampler, pruner=pruner)
    obj = programs.make_objective(prog, rec)
    n = case["n_trials"]
    pieces = [n]
    if splits:
        pieces, left = [], n
        for k in splits:
            if k < left:
                pieces.append(k)
                left -= k
        pieces.append(left)
    for k in pieces:
        study.optimize(obj, n_trials=k, catch=(ValueError,))
    out = []
    for t in study.get_trials(deepcopy=False):
        r = programs.trial_record(t)
        r["seen"] = rec.seen.get(t.number)
        out.append(r)
    return out, study


def _brute_leaves(prog: dict[str, Any]) -> int:
    def dom(n: str) -> int:
        p = programs.PARAMS[n]
        if p["kind"] == "cat":
            return len(p["choices"])
        if p["kind"] == "int":
            return (p["high"] - p["low"]) // p.get("step", 1) + 1
        return int(round((p["high"] - p["low"]) / p["step"])) + 1

    base = 1
    for n in prog["top"]:
        base *= dom(n)
    if prog["branch"] is None:
        return base
    on = prog["branch"]["on"]
    per = base // dom(on)
    tot = 0
    for arm in prog["branch"]["arms"]:
        a = 1
        for n in arm:
            a *= dom(n)
        tot += per * a
    return tot


def first_diff(a: list[Any], b: list[Any]) -> str | None:
    if len(a) != len(b):
        return f"{len(a)} trials vs {len(b)} trials"
    for x, y in zip(a, b):
        if not deep_eq(x, y):
            keys = [k for k in x if not deep_eq(x[k], y.get(k))]
            return f"trial {x['number']} differs in {keys}: baseline {({k: x[k] for k in keys})} vs variant {({k: y.get(k) for k in keys})}"
    return None


CHILD = r"""
import json, sys, warnings
warnings.simplefilter("ignore")
sys.path.insert(0, sys.argv[1])
from core.runner import dec, enc
from props.c09_reproducible import run_one
import optuna
case = dec(json.load(sys.stdin))
out, _ = run_one(case, optuna.storages.InMemoryStorage())
json.dump(enc(out), sys.stdout)
"""


def run_case(case: dict[str, Any], ctx: Ctx) -> None:
    import optuna

    optuna.logging.set_verbosity(optuna.logging.ERROR)
    warnings.simplefilter("ignore")
    sk = case["sampler"]["kind"]
    prog = case["program"]
    if sk == "brute" and _brute_leaves(prog) <= case["n_trials"]:
        case = dict(case, n_trials=max(1, _brute_leaves(prog) - 1))
    fac = backends.factory(ctx.tmpdir())
    past_startup = case["n_trials"] > (case["sampler"]["n_startup"] if sk.startswith("tpe") or sk == "gp" else case["sampler"]["pop"] if sk in GA else 1)
    try:
        try:
            base, base_study = run_one(case, optuna.storages.InMemoryStorage())
        except (IndexError, KeyError, AssertionError, TypeError) as e:
            # optimize() crashes already on the reference run (e.g. the GP sampler or a GA sampler
            # under HyperbandPruner with a conditional search space: DESIGN.md 6.3): there is no
            # sequence to compare, and the crash is not this property's subject
            ctx.sound_skip(f"the reference run crashes inside optuna ({type(e).__name__}, sampler {sk} x pruner {case['pruner']['kind']})")
            return
        n_done = 0
        for v in case["variants"]:
            id_offset = v.startswith("offset:") or "sqlite" in v  # SQLite ids start at 1
            if v == "repeat":
                got, _ = run_one(case, optuna.storages.InMemoryStorage())
            elif v == "split":
                got, _ = run_one(case, optuna.storages.InMemoryStorage(), case["splits"])
            elif v == "process":
                env = dict(os.environ, PYTHONHASHSEED=str(case["hashseed"]))
                p = subprocess.run([sys.executable, "-c", CHILD, os.path.dirname(os.path.dirname(os.path.abspath(__file__)))], input=json.dumps(enc(case)), capture_output=True, text=True, env=env, timeout=600)
                if p.returncode != 0:
                    raise RuntimeError("child process failed: " + p.stderr[-2000:])
                got = dec(json.loads(p.stdout))
                for r in got:
                    r["iv"] = {int(k): x for k, x in r["iv"].items()}
            else:
                kind = v.split("offset:")[-1]
                storage = fac.make(kind)
                if v.startswith("offset:"):
                    other = optuna.create_study(storage=storage, study_name="someone-else")
                    for _ in range(case["offset"]):
                        other.ask()
                try:
                    got, _ = run_one(case, storage)
                except (IndexError, ValueError, KeyError) as e:
                    if sk in GA and id_offset and ctx.known("ga-sampler-parent-cache-uses-trial-ids-as-indices", f"{v}: {type(e).__name__}: {e}"):
                        fac.release()
                        continue
                    if sk in ORDER_DEPENDENT and kind.startswith("grpc:") and ctx.known("grpc-proxy-loses-parameter-order", f"{v}: {e}"):
                        fac.release()
                        continue
                    sig = "optimize-raises-on-variant"
                    if sk in GA and id_offset:
                        sig = "ga-sampler-parent-cache-uses-trial-ids-as-indices"
                    if sk in ORDER_DEPENDENT and kind.startswith("grpc:"):
                        sig = "grpc-proxy-loses-parameter-order"
                    raise Violation(sig, f"sampler={case['sampler']} pruner={case['pruner']['kind']} variant {v}: optimize raised {type(e).__name__}: {e}", case)
                fac.release()
            d = first_diff(base, got)
            n_done += 1
            ctx.event("variant:" + v)
            if d is not None:
                if sk in GA and id_offset and ctx.known("ga-sampler-parent-cache-uses-trial-ids-as-indices", f"{v}: {d[:200]}"):
                    continue
                if sk in ORDER_DEPENDENT and v.startswith("grpc:") and ctx.known("grpc-proxy-loses-parameter-order", f"{v}: {d[:200]}"):
                    continue
                sig = f"sequence-differs:{v.split(':')[0] if v.startswith('offset') else v}"
                if sk in GA and id_offset:
                    sig = "ga-sampler-parent-cache-uses-trial-ids-as-indices"
                if sk in ORDER_DEPENDENT and v.startswith("grpc:"):
                    sig = "grpc-proxy-loses-parameter-order"
                raise Violation(sig, f"sampler={case['sampler']} pruner={case['pruner']['kind']} directions={case['directions']} n_trials={case['n_trials']} variant {v}: {d}", case)
        # copy_study reproduces every field
        dst = fac.make(case["copy_to"])
        base_study.set_user_attr("note", {"k": [1, 2.5, None]})
        optuna.copy_study(from_study_name="c09-study", from_storage=base_study._storage, to_storage=dst, to_study_name="copy")
        cp = optuna.load_study(study_name="copy", storage=dst)
        a, b = base_study.get_trials(deepcopy=False), cp.get_trials(deepcopy=False)
        if len(a) != len(b):
            raise Violation("copy_study-differs", f"{len(a)} vs {len(b)} trials", case)
        for x, y in zip(a, b):
            for f in ("number", "state", "values", "datetime_start", "datetime_complete", "params", "distributions", "user_attrs", "system_attrs", "intermediate_values"):
                if not deep_eq(getattr(x, f), getattr(y, f)):
                    raise Violation("copy_study-differs", f"to {case['copy_to']}: trial {x.number} field {f}: {getattr(x, f)!r} vs {getattr(y, f)!r}", case)
        if cp.directions != base_study.directions or not deep_eq(cp.user_attrs, base_study.user_attrs) or not deep_eq(cp.system_attrs, base_study.system_attrs):
            raise Violation("copy_study-differs", f"study-level: {cp.directions} {cp.user_attrs} {cp.system_attrs}", case)
        fac.release()
        states = {r["state"] for r in base}
        ctx.case(
            fp=[case["program"], case["sampler"], case["pruner"], case["directions"], case["n_trials"]],
            nontrivial=past_startup and n_done > 0,
            classes=["sampler:" + sk, "pruner:" + case["pruner"]["kind"], f"obj{prog['n_obj']}", "conditional" if prog["branch"] else "flat"] + ["has:" + s for s in sorted(states)],
            sample=case,
        )
    finally:
        fac.release()


CHECKS = [
    Check("run", lambda tier: case_run(tier), run_case, {"quick": 320, "thorough": 6000}, budget_s={"quick": 150, "thorough": 2400}, shrink=False),
]
