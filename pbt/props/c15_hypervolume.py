"""C15  Hypervolume, non-domination rank and subset selection are exact."""
from __future__ import annotations

import itertools
import math
import warnings
from fractions import Fraction
from typing import Any

import numpy as np
from hypothesis import strategies as st

from core.runner import Check, Ctx, Violation

ID = "C15"
LEVEL = "exploration"
RULE = (
    "Hypothesis generates point sets of 1-12 points in 1-5 dimensions from a small integer "
    "lattice (duplicates, per-coordinate ties, dominated points; float arithmetic is exact "
    "there), from full-precision floats, and with -inf coordinates / +inf reference "
    "coordinates; reference points weakly dominated by the set (equality allowed); penalties "
    "with NaN/<=0/>0 and n_below for the rank; for HSSP arbitrary and mutually non-dominated sets "
    "with duplicates, every subset size, plus tens of thousands of tiny 3-D/4-D lattice instances "
    "where exact volume ties are frequent and of 2-objective staircases with a wide dynamic range "
    "(the 2-D solver is separate code); a third of the hypervolume cases are Pareto fronts by "
    "construction, with repeated members (what assume_pareto=True callers pass). Oracles: exact dominated volume by inclusion-exclusion in "
    "fractions.Fraction (cross-checked by coordinate-compressed cell counting for small cases), "
    "repeated O(n^2) Pareto peeling, exhaustive best subset. Non-trivial = the set has a "
    "duplicate, a per-coordinate tie, a dominated point or an infinity; distinct = distinct "
    "(points, reference, parameters)."
)
ASSUMPTIONS = [
    "no NaN objective values; reference point >= every point in every coordinate (the documented precondition)",
    "reference points are finite: optuna's convention for a non-finite reference point (always inf, pinned by tests/hypervolume_tests/test_wfg.py::test_wfg_with_inf even when the point touches it) is not a measure-theoretic statement; -inf objective values are generated",
    "assume_pareto=True is only passed for mutually non-dominated sets (duplicates allowed), as every caller does",
    "HSSP inputs have finite values; half of them are mutually non-dominated (what callers pass), half arbitrary (dominated points and duplicates included)",
    "float point sets: 1e-9 relative tolerance; lattice point sets: exact equality",
]

INF = math.inf


# ------------------------------------------------------------------------------------------
# oracles
# ------------------------------------------------------------------------------------------


def _edge(r: float, x: float) -> Any:
    """Length of [x, r] as Fraction, or INF."""
    if x == r:
        return Fraction(0)
    if r == INF or x == -INF:
        return INF
    return Fraction(r) - Fraction(x)


def hv_exact(pts: list[list[float]], ref: list[float]) -> Any:
    """Lebesgue measure of the union of the boxes [p, ref]: a Fraction or INF."""
    d = len(ref)
    boxes = []
    for p in {tuple(p) for p in pts}:
        edges = [_edge(ref[k], p[k]) for k in range(d)]
        if any(e == 0 for e in edges):
            continue  # a degenerate box has measure zero whatever its other edges are
        if any(e == INF for e in edges):
            return INF
        boxes.append(p)
    if not boxes:
        return Fraction(0)
    fr = [[Fraction(x) for x in p] for p in boxes]
    fref = [Fraction(r) for r in ref]
    n = len(fr)
    total = Fraction(0)
    # inclusion-exclusion over non-empty subsets, incremental corner maxima
    def rec(i: int, corner: list[Fraction] | None, size: int) -> None:
        nonlocal total
        if i == n:
            if size:
                v = Fraction(1)
                for k in range(d):
                    v *= fref[k] - corner[k]
                total += v if size % 2 else -v
            return
        rec(i + 1, corner, size)
        c2 = fr[i] if corner is None else [max(a, b) for a, b in zip(corner, fr[i])]
        rec(i + 1, c2, size + 1)

    rec(0, None, 0)
    return total


def hv_grid(pts: list[list[float]], ref: list[float]) -> Any:
    """Second, structurally different oracle: count cells of the compressed grid."""
    d = len(ref)
    boxes = []
    for p in {tuple(p) for p in pts}:
        edges = [_edge(ref[k], p[k]) for k in range(d)]
        if any(e == 0 for e in edges):
            continue
        if any(e == INF for e in edges):
            return INF
        boxes.append([Fraction(x) for x in p])
    if not boxes:
        return Fraction(0)
    fref = [Fraction(r) for r in ref]
    grids = [sorted({p[k] for p in boxes} | {fref[k]}) for k in range(d)]
    total = Fraction(0)
    for cell in itertools.product(*[range(len(g) - 1) for g in grids]):
        lo = [grids[k][cell[k]] for k in range(d)]
        if any(all(p[k] <= lo[k] for k in range(d)) for p in boxes):
            v = Fraction(1)
            for k in range(d):
                v *= grids[k][cell[k] + 1] - grids[k][cell[k]]
            total += v
    return total


def dominates(a: list[float], b: list[float]) -> bool:
    return all(x <= y for x, y in zip(a, b)) and any(x < y for x, y in zip(a, b))


def peel(pts: list[list[float]]) -> list[int]:
    n = len(pts)
    rank = [-1] * n
    left = set(range(n))
    r = 0
    while left:
        front = [i for i in left if not any(dominates(pts[j], pts[i]) for j in left)]
        for i in front:
            rank[i] = r
        left -= set(front)
        r += 1
    return rank


# ------------------------------------------------------------------------------------------
# generators
# ------------------------------------------------------------------------------------------


def _coord(kind: str) -> st.SearchStrategy[float]:
    if kind == "lattice":
        return st.integers(-3, 3).map(float)
    if kind == "lattice_inf":
        return st.one_of(st.integers(-3, 3).map(float), st.integers(-3, 3).map(float), st.just(-INF))
    return st.one_of(
        st.floats(-1e3, 1e3, allow_nan=False),
        st.floats(-1.0, 1.0, allow_nan=False),
        st.integers(-3, 3).map(float),
    )


@st.composite
def point_set(draw: Any, max_n: int = 12, kinds: tuple[str, ...] = ("lattice", "lattice_inf", "float")) -> dict[str, Any]:
    kind = draw(st.sampled_from(kinds))
    d = draw(st.integers(1, 5))
    cap = {1: max_n, 2: max_n, 3: min(max_n, 11), 4: min(max_n, 10), 5: min(max_n, 9)}[d]
    n = draw(st.integers(1, cap))
    pts = draw(st.lists(st.lists(_coord(kind), min_size=d, max_size=d), min_size=n, max_size=n))
    # duplicates on purpose
    if n >= 2 and draw(st.integers(0, 3)) == 0:
        i, j = draw(st.integers(0, n - 1)), draw(st.integers(0, n - 1))
        pts[i] = list(pts[j])
    return {"kind": kind, "d": d, "points": pts}


@st.composite
def case_hv(draw: Any) -> dict[str, Any]:
    ps = draw(point_set())
    d, pts = ps["d"], ps["points"]
    if draw(st.integers(0, 2)) == 0:
        # a Pareto front by construction (with repeated members): what the callers that pass
        # assume_pareto=True have -- random sets of a dozen points are almost never one
        pts = [p for p in pts if not any(dominates(q, p) for q in pts)]
        for _ in range(draw(st.integers(0, 2))):
            pts.append(list(pts[draw(st.integers(0, len(pts) - 1))]))
        pts = [pts[i] for i in draw(st.permutations(list(range(len(pts)))))]
    ref = []
    for k in range(d):
        col = [p[k] for p in pts if p[k] != -INF]
        m = max(col) if col else -3.0
        extra = draw(st.sampled_from([0.0, 0.0, 1.0, 2.0, 0.5])) if ps["kind"] != "float" else draw(
            st.one_of(st.just(0.0), st.floats(0, 10, allow_nan=False))
        )
        ref.append(m + extra)
    # assume_pareto=True is only passed for mutually non-dominated sets (what the callers do;
    # the 2-D path is wrong for dominated input although the docstring says the flag never
    # changes the result -- recorded in DESIGN.md as a documentation discrepancy)
    pareto = not any(dominates(a, b) for a in pts for b in pts)
    return {"kind": ps["kind"], "points": pts, "ref": ref, "assume_pareto": pareto and draw(st.booleans())}


def _features(pts: list[list[float]], ref: list[float] | None = None) -> list[str]:
    f = []
    tp = [tuple(p) for p in pts]
    if len(set(tp)) < len(tp):
        f.append("duplicate")
    d = len(pts[0])
    if any(len({p[k] for p in pts}) < len(pts) for k in range(d)) and len(pts) > 1:
        f.append("tie")
    if any(dominates(a, b) for a in pts for b in pts):
        f.append("dominated")
    if any(math.isinf(x) for p in pts for x in p) or (ref and any(math.isinf(r) for r in ref)):
        f.append("infinity")
    if ref and any(p[k] == ref[k] for p in pts for k in range(d)):
        f.append("touches_ref")
    return f


def run_hv(case: dict[str, Any], ctx: Ctx) -> None:
    from optuna._hypervolume import compute_hypervolume

    warnings.simplefilter("ignore")
    pts, ref = case["points"], case["ref"]
    feats = _features(pts, ref)
    ctx.case(fp=case, nontrivial=bool(feats), classes=feats + [case["kind"], f"d{len(ref)}"], sample=case)
    exp = hv_exact(pts, ref)
    if len(pts) <= 5 and len(ref) <= 3:
        g = hv_grid(pts, ref)
        if g != exp:
            raise RuntimeError(f"oracles disagree {g} {exp} {case}")  # harness error
    # the zero-edge x infinite-edge shape (recorded finding / see known_findings.json)
    degenerate_inf = any(
        any(_edge(ref[k], p[k]) == 0 for k in range(len(ref)))
        and any(_edge(ref[k], p[k]) == INF for k in range(len(ref)))
        for p in pts
    )
    with np.errstate(all="ignore"):
        got = compute_hypervolume(
            np.array(pts, dtype=float), np.array(ref, dtype=float), assume_pareto=case["assume_pareto"]
        )
    got = float(got)
    ok: bool
    if exp == INF:
        ok = got == INF
    elif math.isinf(got) or math.isnan(got):
        ok = False
    elif case["kind"] == "float":
        ok = abs(got - float(exp)) <= 1e-9 * max(abs(float(exp)), 1e-300) + 1e-300 or abs(got - float(exp)) <= 1e-9 * _scale(pts, ref)
    else:
        ok = Fraction(got) == exp
    if not ok:
        if degenerate_inf and ctx.known(
            "hypervolume:point-with-infinite-edge-and-zero-edge", f"points={pts} ref={ref}"
        ):
            return
        sig = "hypervolume-wrong"
        if degenerate_inf:
            sig = "hypervolume:point-with-infinite-edge-and-zero-edge"
        raise Violation(sig, f"points={pts} ref={ref} assume_pareto={case['assume_pareto']}: got {got!r}, exact {exp if exp == INF else float(exp)!r}", case)


def _scale(pts: list[list[float]], ref: list[float]) -> float:
    # product of the largest finite edges: the natural magnitude for a relative tolerance
    s = 1.0
    for k in range(len(ref)):
        e = [ref[k] - p[k] for p in pts if math.isfinite(ref[k] - p[k])]
        s *= max(e) if e else 1.0
    return s


# ---- rank -------------------------------------------------------------------------------


@st.composite
def case_rank(draw: Any) -> dict[str, Any]:
    ps = draw(point_set(max_n=14, kinds=("lattice", "lattice", "lattice_inf", "float")))
    pts = ps["points"]
    if ps["kind"] == "lattice_inf":
        # +inf also occurs as an objective value (a failed maximisation, say)
        pts = [[INF if (x == -INF and draw(st.booleans())) else x for x in p] for p in pts]
    n = len(pts)
    pen: list[float] | None = None
    if draw(st.booleans()):
        pen = draw(
            st.lists(
                st.one_of(st.just(float("nan")), st.sampled_from([-1.0, 0.0, 0.5, 1.0, 2.0]), st.floats(-2, 2, allow_nan=False)),
                min_size=n,
                max_size=n,
            )
        )
    n_below = draw(st.one_of(st.none(), st.integers(1, n)))
    return {"kind": ps["kind"], "points": pts, "penalty": pen, "n_below": n_below}


def rank_oracle(pts: list[list[float]], pen: list[float] | None) -> list[int]:
    n = len(pts)
    if pen is None:
        return peel(pts)
    out = [-1] * n
    feas = [i for i in range(n) if not math.isnan(pen[i]) and pen[i] <= 0]
    infe = [i for i in range(n) if not math.isnan(pen[i]) and pen[i] > 0]
    nanp = [i for i in range(n) if math.isnan(pen[i])]
    off = 0
    if feas:
        r = peel([pts[i] for i in feas])
        for i, x in zip(feas, r):
            out[i] = x
        off = max(r) + 1
    if infe:
        vals = sorted({pen[i] for i in infe})
        for i in infe:
            out[i] = off + vals.index(pen[i])
        off = off + len(vals)
    if nanp:
        r = peel([pts[i] for i in nanp])
        for i, x in zip(nanp, r):
            out[i] = off + x
    return out


def run_rank(case: dict[str, Any], ctx: Ctx) -> None:
    from optuna.study._multi_objective import _fast_non_domination_rank, _is_pareto_front

    pts, pen, nb = case["points"], case["penalty"], case["n_below"]
    feats = _features(pts)
    ctx.case(
        fp=case,
        nontrivial=bool(feats),
        classes=feats + [f"d{len(pts[0])}", "penalty" if pen is not None else "nopenalty", "n_below" if nb else "full"],
        sample=case,
    )
    arr = np.array(pts, dtype=float)
    parr = None if pen is None else np.array(pen, dtype=float)
    with np.errstate(all="ignore"):
        got = [int(x) for x in _fast_non_domination_rank(arr, penalty=parr, n_below=nb)]
    exp = rank_oracle(pts, pen)
    if nb is None or nb >= len(pts):
        if got != exp:
            raise Violation("rank-wrong", f"points={pts} penalty={pen}: got {got}, peeling gives {exp}", case)
    else:
        R = sorted(exp)[nb - 1]  # rank of the n_below-th best solution
        for i in range(len(pts)):
            if exp[i] <= R:
                if got[i] != exp[i]:
                    raise Violation("rank-wrong-within-n_below", f"points={pts} penalty={pen} n_below={nb}: got {got}, exact {exp}", case)
            elif got[i] <= R:
                raise Violation("rank-of-worse-solution-not-greater", f"points={pts} penalty={pen} n_below={nb}: got {got}, exact {exp}", case)
    # the Pareto-front predicate itself (what best_trials uses)
    front = [bool(x) for x in _is_pareto_front(arr, assume_unique_lexsorted=False)]
    expf = [not any(dominates(q, p) for q in pts) for p in pts]
    if front != expf:
        raise Violation("pareto-front-wrong", f"points={pts}: got {front}, O(n^2) {expf}", case)


# ---- HSSP -------------------------------------------------------------------------------


@st.composite
def case_hssp(draw: Any) -> dict[str, Any]:
    kind = draw(st.sampled_from(["lattice", "lattice", "float", "sliver", "sliver"]))
    d = draw(st.integers(2, 5))
    n0 = draw(st.integers(1, 16))
    if kind == "sliver":
        # anchors on a coarse grid plus near-copies that are better by a sliver in one
        # coordinate and much worse in another: exact ties between a stale upper bound and a
        # fresh contribution, and candidates whose real contribution is tiny
        d = draw(st.integers(3, 4))
        base = st.sampled_from([0.0, 8.0, 9.0, 36.0, 64.0, 72.0])
        anchors = draw(st.lists(st.lists(base, min_size=d, max_size=d), min_size=2, max_size=5))
        raw = [list(a) for a in anchors]
        for a in anchors:
            for _ in range(draw(st.integers(0, 2))):
                b = list(a)
                i, j = draw(st.integers(0, d - 1)), draw(st.integers(0, d - 1))
                b[i] = b[i] - draw(st.sampled_from([0.125, 0.25, 1.0]))
                b[j] = b[j] + draw(st.sampled_from([1.0, 9.0, 8.0, 0.125]))
                raw.append(b)
        front = [p for p in raw if not any(dominates(q, p) for q in raw)]
        seen: list[list[float]] = []
        for p in front:
            if p not in seen or draw(st.integers(0, 3)) == 0:
                seen.append(p)
        front = seen[:10]
        order = draw(st.permutations(list(range(len(front)))))
        front = [front[i] for i in order]
        idx = draw(st.lists(st.integers(0, 60), min_size=len(front), max_size=len(front), unique=True))
        k = draw(st.integers(1, len(front)))
        ref = [max(p[c] for p in front) + draw(st.sampled_from([1.0, 1.0, 0.125, 8.0])) for c in range(d)]
        return {"kind": kind, "points": front, "indices": idx, "k": k, "ref": ref}
    # floats: no magnitudes below 1e-6 (products of such edges underflow in double precision and
    # the greedy choice is then arbitrary without being wrong in any meaningful sense)
    co = st.integers(-4, 4).map(float) if kind == "lattice" else st.one_of(
        st.floats(-10, 10, allow_nan=False).map(lambda x: 0.0 if abs(x) < 1e-6 else x), st.integers(-3, 3).map(float), st.integers(-80, 80).map(lambda i: i / 8)
    )
    raw = draw(st.lists(st.lists(co, min_size=d, max_size=d), min_size=n0, max_size=n0))
    front = [p for p in raw if not any(dominates(q, p) for q in raw)] if draw(st.booleans()) else list(raw)
    # duplicates inside the front
    if draw(st.integers(0, 2)) == 0 and front:
        front.append(list(front[draw(st.integers(0, len(front) - 1))]))
    front = front[:10]
    order = draw(st.permutations(list(range(len(front)))))
    front = [front[i] for i in order]
    idx = draw(st.lists(st.integers(0, 60), min_size=len(front), max_size=len(front), unique=True))
    k = draw(st.integers(1, len(front)))
    ref = []
    for c in range(d):
        m = max(p[c] for p in front)
        ref.append(m + (draw(st.sampled_from([0.0, 1.0, 1.0, 2.0])) if kind == "lattice" else draw(st.one_of(st.just(0.0), st.floats(1e-3, 5, allow_nan=False), st.sampled_from([1.0, 0.125])))))
    return {"kind": kind, "points": front, "indices": idx, "k": k, "ref": ref}


def run_hssp(case: dict[str, Any], ctx: Ctx) -> None:
    from optuna._hypervolume.hssp import _solve_hssp

    pts, idx, k, ref = case["points"], case["indices"], case["k"], case["ref"]
    feats = _features(pts, ref)
    ctx.case(fp=case, nontrivial=bool(feats) or len(pts) > 2, classes=feats + [f"d{len(ref)}", f"k{'=n' if k == len(pts) else '<n'}"], sample=case)
    with np.errstate(all="ignore"):
        got = _solve_hssp(np.array(pts, dtype=float), np.array(idx, dtype=int), k, np.array(ref, dtype=float))
    got = [int(x) for x in got]
    if len(got) != k:
        raise Violation("hssp-wrong-size", f"{case}: got {got}", case)
    if len(set(got)) != k or any(g not in idx for g in got):
        raise Violation("hssp-not-distinct-members", f"{case}: got {got}", case)
    sel = [pts[idx.index(g)] for g in got]
    hv_sel = hv_exact(sel, ref)
    best = max(hv_exact([pts[i] for i in comb], ref) for comb in itertools.combinations(range(len(pts)), k))
    if Fraction(hv_sel) * Fraction(10**9) < Fraction(int((1 - 1 / math.e) * 10**9)) * Fraction(best) * (1 - Fraction(1, 10**9)):
        raise Violation(
            "hssp-below-approximation-bound",
            f"{case}: selected {got} hv={float(hv_sel)} best={float(best)} ratio={float(Fraction(hv_sel) / Fraction(best)) if best else 1}",
            case,
        )
    ctx.event("greedy_is_optimal" if hv_sel == best else "greedy_suboptimal")


@st.composite
def case_hssp_small(draw: Any) -> dict[str, Any]:
    """Many tiny 3-D/4-D lattice instances: exact ties between box volumes are frequent there,
    which is what the lazily updated contributions of the greedy solver are sensitive to."""
    d = draw(st.sampled_from([3, 3, 3, 4]))
    hi = draw(st.sampled_from([4, 4, 6, 8]))
    raw = draw(st.lists(st.lists(st.integers(0, hi).map(float), min_size=d, max_size=d), min_size=3, max_size=8))
    # arbitrary sets: dominated points and duplicates stay in (the statement quantifies over
    # them; the unchanged implementation meets the bound there too)
    front = raw
    if draw(st.booleans()):
        front = [p for p in raw if not any(dominates(q, p) for q in raw)]
        if len(front) < 3:
            front = raw
    k = draw(st.integers(1, len(front)))
    ref = [float(hi + 1)] * d
    return {"kind": "lattice", "points": front, "indices": list(range(len(front))), "k": k, "ref": ref}


@st.composite
def case_hssp_2d(draw: Any) -> dict[str, Any]:
    """Two objectives (a separate solver in hssp.py): staircases with a wide dynamic range --
    steps of very different width and height, so that one or two points carry most of the
    volume -- given in arbitrary order, with an occasional duplicate or dominated point."""
    n = draw(st.integers(3, 9))
    coord = st.one_of(st.integers(-10, 100), st.sampled_from([0, 1, 90, 91, 99, 100]), st.integers(0, 8)).map(float)
    xs = sorted(set(draw(st.lists(coord, min_size=n, max_size=n))))
    ys = sorted(set(draw(st.lists(coord, min_size=len(xs), max_size=len(xs) + 3))), reverse=True)
    m = min(len(xs), len(ys))
    front = [[xs[i], ys[i]] for i in range(m)]
    if len(front) >= 2 and draw(st.integers(0, 4)) == 0:
        front.append(list(front[draw(st.integers(0, len(front) - 1))]))
    if draw(st.integers(0, 4)) == 0:
        front.append([front[0][0] + 1.0, front[0][1] + 1.0])
    order = draw(st.permutations(list(range(len(front)))))
    front = [front[i] for i in order]
    k = draw(st.integers(1, len(front)))
    ref = [max(p[c] for p in front) + draw(st.sampled_from([1.0, 1.0, 0.125, 9.0, 50.0])) for c in range(2)]
    return {"kind": "staircase-2d", "points": front, "indices": list(range(len(front))), "k": k, "ref": ref}


CHECKS = [
    Check("hv", lambda tier: case_hv(), run_hv, {"quick": 12000, "thorough": 250000}, budget_s={"quick": 120, "thorough": 1500}),
    Check("rank", lambda tier: case_rank(), run_rank, {"quick": 8000, "thorough": 250000}, budget_s={"quick": 60, "thorough": 900}),
    Check("hssp", lambda tier: case_hssp(), run_hssp, {"quick": 2500, "thorough": 120000}, budget_s={"quick": 100, "thorough": 1500}),
    Check("hssp_2d", lambda tier: case_hssp_2d(), run_hssp, {"quick": 16000, "thorough": 600000}, budget_s={"quick": 100, "thorough": 1500}),
    Check("hssp_small", lambda tier: case_hssp_small(), run_hssp, {"quick": 48000, "thorough": 1500000}, budget_s={"quick": 100, "thorough": 1500}),
]
