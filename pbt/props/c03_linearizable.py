"""C03  Concurrent use of one study is linearizable."""
from __future__ import annotations

import copy
import warnings
from typing import Any

from hypothesis import strategies as st

from core import conc, gen
from core.model import DUP, FINISHED, KEYERROR, VALUEERROR, ModelStorage, Raises, deep_eq
from core.runner import Check, Ctx, Enum, Violation
from core.sched import Deadlock, Inconclusive, Scheduler
from core.storage_ops import FAMILIES, Backend, build_template, full_dump_check, internal_value, template

ID = "C03"
LEVEL = "exploration"
RULE = (
    "Hypothesis generates scenarios: a pre-history (studies, RUNNING / WAITING / finished trials) "
    "and 2-3 workers with 1-3 storage calls each (create study with a shared name, create trial "
    "plain or from a template, set param / state+values / intermediate value / attrs incl. "
    "WAITING->RUNNING on the same trial from several workers and writes to trials another worker "
    "finishes, get_all_trials / get_trial / get_n_trials / get_all_studies), on ten layouts: "
    "threads sharing one storage object (in-memory, SQLite, cached SQLite, journal file, journal "
    "redis), 'processes' = separate storage objects on one database / file / redis (SQLite, "
    "cached SQLite, journal file with both locks, journal redis), and a mixed layout (threads on "
    "one cached storage plus an external raw writer). A deterministic scheduler owns the "
    "interleaving (yield point = every source line of the storage layer, every system call of "
    "the journal file backend, every lock operation); all single-preemption schedules (quick: "
    "a stratified sample) plus generated 2-3-preemption schedules. Oracle: Wing-Gong "
    "linearizability search against ModelStorage: there must be a total order of the calls, "
    "consistent with real time (invoke / response step numbers), under which the model returns "
    "the same values and exception classes (ids bound consistently to model handles) and ends in "
    "the backend's full readable state after all workers joined. Non-trivial = a context switch "
    "while the preempted worker was inside a call that conflicts with another worker's call; "
    "distinct = distinct (scenario, schedule)."
)
ASSUMPTIONS = [
    "line-granular preemption; SQLite/SQLAlchemy internals and fakeredis are trusted",
    "a call that ends in the documented StorageInternalError ('database is locked', busy timeout 0) is allowed iff it can be placed as having no effect",
    "the real gRPC thread pool is not scheduled (the proxy's conversion code is covered by C01, its cache by C08)",
]

LAYOUTS = conc.LAYOUTS + ["mixed:cached_sqlite"]
JSONV = st.one_of(st.integers(-3, 3), st.sampled_from(["a", None, 1.5, [1, "x"], {"k": 2}]))


@st.composite
def conc_op(draw: Any) -> list[Any]:
    k = draw(st.sampled_from(["cs", "ct", "ct", "ctt", "sp", "ss", "ss", "ss", "iv", "ua", "sua", "gat", "gat", "gt", "gn", "gas"]))
    tgt = draw(st.one_of(st.integers(0, 5), st.just("mine")))
    if k == "cs":
        return [k, draw(st.sampled_from(["shared", "shared", "other"]))]
    if k == "ct":
        return [k, draw(st.integers(0, 2))]
    if k == "ctt":
        return [k, draw(st.integers(0, 2)), draw(template())]
    if k == "sp":
        return [k, tgt, draw(st.sampled_from(["x", "n", "c"])), draw(st.floats(0, 1))]
    if k == "ss":
        return [k, tgt, draw(st.sampled_from(["RUNNING", "RUNNING", "COMPLETE", "FAIL", "PRUNED"])), draw(st.integers(-3, 3))]
    if k == "iv":
        return [k, tgt, draw(st.integers(0, 2)), float(draw(st.integers(-3, 3)))]
    if k == "ua":
        return [k, tgt, draw(st.sampled_from(["a", "b"])), draw(JSONV), draw(st.booleans())]
    if k == "sua":
        return [k, draw(st.integers(0, 2)), draw(st.sampled_from(["a", "b"])), draw(JSONV)]
    if k == "gat":
        # third element: deepcopy=True (the default of the API) or False (what Study mostly uses)
        return [k, draw(st.integers(0, 2)), draw(st.booleans())]
    if k == "gn":
        return [k, draw(st.integers(0, 2))]
    if k == "gt":
        return [k, tgt]
    return [k]


@st.composite
def case_scenario(draw: Any, layouts: list[str] | None = None, readers: bool = False) -> dict[str, Any]:
    nw = draw(st.integers(2, 3))
    pre = draw(st.lists(st.sampled_from(["running", "running", "waiting", "waiting", "complete", "study2"]), min_size=1, max_size=5))
    ops = conc_op()
    if readers:
        ops = st.one_of(conc_op(), st.sampled_from([["gat", 0], ["gt", 0], ["gt", 1], ["gn", 0], ["ss", 0, "COMPLETE", 1], ["ss", 1, "COMPLETE", 2]]))
    workers = [draw(st.lists(ops, min_size=1, max_size=3)) for _ in range(nw)]
    if draw(st.booleans()):
        # contention scenario: every worker starts with a call on the same ("hot") trial 0
        pre = [draw(st.sampled_from(["waiting", "waiting", "running"]))] + pre[:4]
        hot = st.sampled_from(
            [["ss", 0, "RUNNING", 0], ["ss", 0, "RUNNING", 0], ["ss", 0, "FAIL", 0], ["ss", 0, "COMPLETE", 1], ["iv", 0, 0, 1.0], ["ua", 0, "a", 1, True], ["sp", 0, "x", 0.5], ["gt", 0], ["gat", 0], ["ct", 0], ["ct", 0], ["cs", "shared"]]
        )
        # same-kind races (create/create, claim/claim, finish/finish) are the classic ones: most
        # workers start with the same hot call
        h0 = draw(hot)
        workers = [[h0 if draw(st.integers(0, 2)) else draw(hot)] + w[:2] for w in workers]
    return {
        "layout": draw(st.sampled_from(layouts or LAYOUTS)),
        "pre": pre,
        "workers": workers,
        "multi": draw(st.lists(st.lists(st.tuples(st.floats(0, 1), st.integers(0, 1)).map(list), min_size=2, max_size=3), max_size=4)),
        "salt": draw(st.integers(0, 1000)),
    }


# ---- applying one op to the model / to a storage ------------------------------------------------


def norm_trial(t: Any) -> dict[str, Any]:
    return {
        "id": t._trial_id,
        "number": t.number,
        "state": t.state.name,
        "values": t.values,
        "params": t.params,
        "user_attrs": t.user_attrs,
        "system_attrs": t.system_attrs,
        "iv": dict(sorted(t.intermediate_values.items())),
    }


def model_trial(m: ModelStorage, h: int) -> dict[str, Any]:
    d = m.trial_dump(h)
    return {"id": h, "number": d["number"], "state": d["state"], "values": d["values"], "params": d["params"], "user_attrs": d["user_attrs"], "system_attrs": d["system_attrs"], "iv": d["iv"]}


class Resolver:
    """Targets of the concurrent ops: handles of the pre-history, or a worker's own creation."""

    def __init__(self, n_studies: int, n_trials: int) -> None:
        self.ns, self.nt = n_studies, n_trials

    def study(self, i: int) -> int:
        return i % self.ns

    def trial(self, t: Any, mine: int | None) -> int | None:
        if t == "mine":
            return mine
        return t % self.nt if self.nt else None


def real_call(b: Backend, op: list[Any], rs: Resolver, mine_id: int | None, sid_of: list[int], tid_of: list[int]) -> Any:
    """Runs op on storage b.s with concrete ids; returns the raw result."""
    from optuna.study import StudyDirection
    from optuna.trial import TrialState

    s = b.s
    k = op[0]

    def T(t: Any) -> int:
        if t == "mine":
            if mine_id is None:
                raise LookupError("no own trial yet")
            return mine_id
        return tid_of[rs.trial(t, None)]

    if k == "cs":
        return s.create_new_study([StudyDirection.MINIMIZE], op[1])
    if k == "ct":
        return s.create_new_trial(sid_of[rs.study(op[1])])
    if k == "ctt":
        _, ft = build_template(op[2], 1)
        return s.create_new_trial(sid_of[rs.study(op[1])], ft)
    if k == "sp":
        spec = FAMILIES[op[2]][0]
        iv_, _ = internal_value(spec, op[3])
        return s.set_trial_param(T(op[1]), op[2], iv_, gen.make_dist(spec))
    if k == "ss":
        st_ = getattr(TrialState, op[2])
        return s.set_trial_state_values(T(op[1]), st_, [float(op[3])] if op[2] == "COMPLETE" else None)
    if k == "iv":
        return s.set_trial_intermediate_value(T(op[1]), op[2], op[3])
    if k == "ua":
        return (s.set_trial_user_attr if op[4] else s.set_trial_system_attr)(T(op[1]), op[2], copy.deepcopy(op[3]))
    if k == "sua":
        return s.set_study_user_attr(sid_of[rs.study(op[1])], op[2], copy.deepcopy(op[3]))
    if k == "gat":
        return [norm_trial(t) for t in s.get_all_trials(sid_of[rs.study(op[1])], deepcopy=bool(len(op) > 2 and op[2]))]
    if k == "gn":
        return s.get_n_trials(sid_of[rs.study(op[1])])
    if k == "gt":
        return norm_trial(s.get_trial(T(op[1])))
    if k == "gas":
        return sorted(x.study_name for x in s.get_all_studies())
    raise ValueError(k)


def model_call(m: ModelStorage, op: list[Any], rs: Resolver, mine_h: int | None) -> Any:
    k = op[0]

    def T(t: Any) -> int:
        if t == "mine":
            if mine_h is None:
                raise LookupError("no own trial yet")
            return mine_h
        return rs.trial(t, None)

    if k == "cs":
        return m.create_new_study(["MINIMIZE"], op[1])
    if k == "ct":
        return m.create_new_trial(rs.study(op[1]), None)
    if k == "ctt":
        mt, _ = build_template(op[2], 1)
        return m.create_new_trial(rs.study(op[1]), mt)
    if k == "sp":
        spec = FAMILIES[op[2]][0]
        iv_, ext = internal_value(spec, op[3])
        return m.set_trial_param(T(op[1]), op[2], iv_, ext, spec)
    if k == "ss":
        return m.set_trial_state_values(T(op[1]), op[2], [float(op[3])] if op[2] == "COMPLETE" else None)
    if k == "iv":
        return m.set_trial_intermediate_value(T(op[1]), op[2], op[3])
    if k == "ua":
        return m.set_trial_attr(T(op[1]), "user" if op[4] else "system", op[2], op[3])
    if k == "sua":
        return m.set_study_attr(rs.study(op[1]), "user", op[2], op[3])
    if k == "gat":
        st_ = m._study(rs.study(op[1]))
        return [model_trial(m, h) for h in st_.trials]
    if k == "gn":
        return len(m._study(rs.study(op[1])).trials)
    if k == "gt":
        h = T(op[1])
        m._trial(h)
        return model_trial(m, h)
    if k == "gas":
        return sorted(x.name for x in m.studies if x.alive)
    raise ValueError(k)


CREATES = {"cs": "s", "ct": "t", "ctt": "t"}


LAST_RELEASES: list[int] = []  # yield points right after a lock release, of the last unpreempted run


def execute(case: dict[str, Any], preempt: dict[int, int], tmpdir: str, ctx: Ctx | None) -> tuple[int, bool]:
    import optuna
    from optuna.study import StudyDirection
    from optuna.trial import TrialState

    optuna.logging.set_verbosity(optuna.logging.CRITICAL)
    warnings.simplefilter("ignore")
    layout = case["layout"]
    mixed = layout.startswith("mixed:")
    env_layout = "threads:" + layout.split(":")[1] if mixed else layout
    nw = len(case["workers"])
    sched = Scheduler(preempt=preempt, trace_files=conc.target_files(env_layout), record=not preempt, copy_yields=True)
    with conc.Env(env_layout, tmpdir, sched, nw, pickled=bool(case.get("salt", 0) % 2)) as env:
        s0 = env.setup
        m = ModelStorage()
        sid_of: list[int] = []
        tid_of: list[int] = []
        # pre-history
        sid_of.append(s0.create_new_study([StudyDirection.MINIMIZE], "base"))
        m.create_new_study(["MINIMIZE"], "base")
        for p in case["pre"]:
            if p == "study2":
                if len(sid_of) < 3:
                    sid_of.append(s0.create_new_study([StudyDirection.MINIMIZE], f"s{len(sid_of)}"))
                    m.create_new_study(["MINIMIZE"], f"s{len(sid_of) - 1}")
                continue
            si = len(tid_of) % len(sid_of)
            if p == "running":
                tid_of.append(s0.create_new_trial(sid_of[si]))
                m.create_new_trial(si, None)
            else:
                tpl = {"state": "WAITING" if p == "waiting" else "COMPLETE", "with_values": True, "values": [1.0, 2.0, 3.0], "params": [], "user_attrs": {"u": 1}, "system_attrs": {}, "iv": [], "start_us": 10**12, "dur_us": 5, "waiting_has_start": False}
                mt, ft = build_template(tpl, 1)
                tid_of.append(s0.create_new_trial(sid_of[si], ft))
                m.create_new_trial(si, mt)
        if not tid_of:
            tid_of.append(s0.create_new_trial(sid_of[0]))
            m.create_new_trial(0, None)
        rs = Resolver(len(sid_of), len(tid_of))
        stores = env.worker_storages()
        if mixed:
            # the last worker is an external raw writer on the same database
            raw = env._rdb()
            raw.get_all_studies()
            stores = stores[:-1] + [raw]
        backs = [Backend(f"w{i}", s) for i, s in enumerate(stores)]
        events: list[dict[str, Any]] = []

        def worker(i: int) -> Any:
            def run() -> None:
                mine: int | None = None
                for j, op in enumerate(case["workers"][i]):
                    t0 = sched.steps
                    r = backs[i].call(lambda: real_call(backs[i], op, rs, mine, sid_of, tid_of))
                    if r[0] == "exc" and "LookupError" in str(r[1]):
                        continue  # "mine" before any own creation: the op is void
                    if r[0] == "exc" and str(r[1]).startswith("StorageInternalError"):
                        r = ("exc", "StorageInternalError")
                    if r[0] == "ok" and op[0] in ("ct", "ctt"):
                        mine = r[1]
                    events.append({"w": i, "i": j, "op": op, "res": r, "t0": t0, "t1": sched.steps})

            return run

        try:
            res = sched.run({f"w{i}": worker(i) for i in range(nw)})
        except (Deadlock, Inconclusive) as e:
            if ctx is not None:
                ctx.event("inconclusive:" + type(e).__name__)
            return sched.steps, False
        sw = f"layout={layout} schedule {preempt} switches {sched.switches}"
        if not preempt:
            LAST_RELEASES[:] = [st for st, _, tag in sched.trace if tag == "lock.release"]
        for n_, r in res.items():
            if r[0] != "ok":
                raise Violation("worker-raised", f"{sw}: {n_}: {r[1]!r}", None)
        for e in events:
            if e["res"][0] == "exc" and e["res"][1] not in (KEYERROR, DUP, FINISHED, VALUEERROR, "StorageInternalError", "RuntimeError"):
                raise Violation("undocumented-exception", f"{sw}: worker {e['w']} {e['op'][:3]} raised {e['res'][1]}", None)
            if ctx is not None and e["res"] == ("exc", "StorageInternalError"):
                ctx.event("allowed-error:StorageInternalError")
        view = Backend("final view", env.fresh_view())
        n_pre_s, n_pre_t = len(sid_of), len(tid_of)

        def final_check(mf: ModelStorage, bind_s: dict[int, int], bind_t: dict[int, int]) -> bool:
            sid = list(sid_of) + [None] * (len(mf.studies) - n_pre_s)
            tid = list(tid_of) + [None] * (len(mf.trials) - n_pre_t)
            for rid, h in bind_s.items():
                sid[h] = rid
            for rid, h in bind_t.items():
                tid[h] = rid
            if any(x is None for x in sid + tid):
                return False
            view.sid, view.tid = sid, tid  # type: ignore[assignment]
            try:
                full_dump_check(mf, view, None, "after all workers joined")
            except Violation as v:
                final_reason[0] = v.msg[:500]
                return False
            return True

        final_reason = [""]
        pre_bind_s = {sid_of[i]: i for i in range(n_pre_s)}
        pre_bind_t = {tid_of[i]: i for i in range(n_pre_t)}
        # seed the id bindings with the pre-history
        ok, why = _linearize_with(events, m, rs, pre_bind_s, pre_bind_t, final_check)
        if not ok and "sqlite" in layout:
            # recorded finding: a non-state setter on T overlapping a finishing state change of T
            fin = [e for e in events if e["op"][0] == "ss" and e["op"][2] in ("COMPLETE", "FAIL", "PRUNED") and e["res"] == ("ok", True)]
            sets = [e for e in events if e["op"][0] in ("sp", "iv", "ua") and e["res"][0] == "ok"]

            def tgt(e: dict[str, Any]) -> Any:
                return ("mine", e["w"]) if e["op"][1] == "mine" else rs.trial(e["op"][1], None)

            race = any(f["w"] != s_["w"] and tgt(f) == tgt(s_) and s_["t0"] < f["t1"] and f["t0"] < s_["t1"] for f in fin for s_ in sets)
            if race and ctx is not None and ctx.known("sqlite-setter-check-then-write-race", f"{sw}"):
                return sched.steps, False
            if race:
                hist = [(e["w"], e["op"][:3], str(e["res"])[:80], e["t0"], e["t1"]) for e in events]
                raise Violation("sqlite-setter-check-then-write-race", f"{sw}: {why} | history {hist}", None)
        if not ok:
            hist = [(e["w"], e["op"][:3] if e["op"][0] != "ctt" else ["ctt", e["op"][1], e["op"][2]["state"]], str(e["res"])[:80], e["t0"], e["t1"]) for e in events]
            raise Violation(
                "not-linearizable",
                f"{sw}: no sequential order of the calls explains the results. Last mismatch: {why or final_reason[0]} | final-state mismatch: {final_reason[0][:300]} | history (worker, op, result, invoke step, response step): {hist}",
                None,
            )
        # non-trivial: a switch happened while another worker was inside a call
        inside = False
        for (step, frm, to) in sched.switches:
            if any(e["t0"] <= step < e["t1"] for e in events if f"w{e['w']}" == frm):
                inside = True
        return sched.steps, inside


def _linearize_with(events: Any, m: ModelStorage, rs: Resolver, bs: dict[int, int], bt: dict[int, int], final_check: Any) -> tuple[bool, str]:
    # small wrapper so that the pre-history bindings are part of the initial state
    n = len(events)
    by_worker: dict[int, list[int]] = {}
    for idx, e in enumerate(events):
        by_worker.setdefault(e["w"], []).append(idx)
    import types

    holder = types.SimpleNamespace(reason="")

    def final2(mf: ModelStorage, b_s: dict[int, int], b_t: dict[int, int]) -> bool:
        return final_check(mf, b_s, b_t)

    # re-implemented search with initial bindings (see linearize for the matching rules)
    ok_reason = [""]
    lin_state = {"budget": 20000}

    def match(e: dict[str, Any], mm: ModelStorage, b_s: dict[int, int], b_t: dict[int, int], mine: dict[int, Any]) -> bool:
        return _match(e, mm, rs, b_s, b_t, mine, ok_reason)

    def dfs(done: frozenset[int], mm: ModelStorage, b_s: dict[int, int], b_t: dict[int, int], mine: dict[int, Any]) -> bool:
        if len(done) == n:
            return final2(mm, b_s, b_t)
        lin_state["budget"] -= 1
        if lin_state["budget"] < 0:
            raise Inconclusive("linearizability search budget exhausted")
        pending = [i for i in range(n) if i not in done]
        cands = []
        for w, lst in by_worker.items():
            nxt = next((i for i in lst if i not in done), None)
            if nxt is None:
                continue
            if any(events[o]["t1"] <= events[nxt]["t0"] for o in pending if o != nxt and events[o]["w"] != w):
                continue
            cands.append(nxt)
        cands.sort(key=lambda i: events[i]["t1"])
        for c in cands:
            m2 = copy.deepcopy(mm)
            s2, t2, mn = dict(b_s), dict(b_t), dict(mine)
            if match(events[c], m2, s2, t2, mn) and dfs(done | {c}, m2, s2, t2, mn):
                return True
        return False

    try:
        ok = dfs(frozenset(), copy.deepcopy(m), dict(bs), dict(bt), {})
    except Inconclusive:
        return True, "inconclusive"
    return ok, ok_reason[0]


def _match(e: dict[str, Any], m: ModelStorage, rs: Resolver, bind_s: dict[int, int], bind_t: dict[int, int], mine: dict[int, Any], reason: list[str]) -> bool:
    res = e["res"]
    if res == ("exc", "StorageInternalError"):
        return True
    try:
        mv = ("ok", model_call(m, e["op"], rs, mine.get(e["w"])))
    except Raises as r:
        mv = ("exc", r.cls)
    if res[0] != mv[0]:
        reason[0] = f"worker {e['w']} {e['op'][:3]} observed {str(res)[:160]} but the model gives {str(mv)[:160]}"
        return False
    if res[0] == "exc":
        if res[1] != mv[1]:
            reason[0] = f"worker {e['w']} {e['op'][:3]} raised {res[1]}, model {mv[1]}"
            return False
        return True
    k = e["op"][0]
    if k in CREATES:
        table = bind_s if CREATES[k] == "s" else bind_t
        if (res[1] in table and table[res[1]] != mv[1]) or (mv[1] in table.values() and table.get(res[1]) != mv[1]):
            reason[0] = f"worker {e['w']} {e['op'][:2]} returned id {res[1]} which is already bound to another object (duplicate id)"
            return False
        table[res[1]] = mv[1]
        if CREATES[k] == "t":
            mine[e["w"]] = mv[1]
        return True
    if k in ("gat", "gt"):
        got = res[1] if k == "gat" else [res[1]]
        exp = mv[1] if k == "gat" else [mv[1]]
        if len(got) != len(exp):
            reason[0] = f"worker {e['w']} {e['op'][:2]} saw {len(got)} trials, model {len(exp)}"
            return False
        for g, x in zip(got, exp):
            g2 = dict(g)
            if g2["id"] not in bind_t:
                reason[0] = f"worker {e['w']} {e['op'][:2]} returned trial id {g2['id']} that no create placed before it explains"
                return False
            g2["id"] = bind_t[g2["id"]]
            if not deep_eq(g2, x):
                diff = [f for f in x if not deep_eq(g2.get(f), x[f])]
                reason[0] = f"worker {e['w']} {e['op'][:2]} saw trial {x['id']} with { {f: g2.get(f) for f in diff} }, model { {f: x[f] for f in diff} }"
                return False
        return True
    if not deep_eq(res[1], mv[1]):
        reason[0] = f"worker {e['w']} {e['op'][:3]} returned {str(res[1])[:120]}, model {str(mv[1])[:120]}"
        return False
    return True


def run_scenario(case: dict[str, Any], ctx: Ctx) -> None:
    scen = {k: case[k] for k in ("layout", "pre", "workers")}

    def one(preempt: dict[int, int]) -> int:
        try:
            steps, nt = execute(case, preempt, ctx.tmpdir(), ctx)
        except Violation as v:
            v.case = dict(case, schedule=[[k, c] for k, c in sorted(preempt.items())])
            raise
        ctx.case(fp=[scen, sorted(preempt.items())], nontrivial=nt, classes=[case["layout"], f"preemptions{len(preempt)}"], sample=dict(scen, schedule=[[k, c] for k, c in sorted(preempt.items())]) if nt else None)
        return steps

    if "schedule" in case:
        one({int(k): int(c) for k, c in case["schedule"]})
        return
    n = one({})
    lay = case["layout"]
    # quick tier: SQLite schedules are expensive (three storage objects per schedule), journal-file
    # ones moderately; the in-memory / fakeredis thread layouts are enumerated completely
    limit = (24 if "sqlite" in lay else 40 if "journal_file" in lay else 70 if lay.startswith("procs:journal_redis") else 300 if "journal_redis" in lay else 600) if ctx.tier == "quick" else 100000
    pts = conc.switch_points(n, len(case["workers"]), limit, case["salt"])
    if lay == "threads:cached_sqlite" and ctx.tier == "quick" and case.get("every_line"):
        # threads sharing one cache object: the windows are single lines inside the cache's own
        # critical sections, so every yield point counts (up to 400; a stride beyond that)
        pts = conc.switch_points(n, len(case["workers"]), 400, case["salt"])
    elif "sqlite" in lay and ctx.tier == "quick":
        # quick tier on the SQLite layouts: every preemption next to an SQL statement / commit
        # (those decide what the other connection sees) plus a thin stride over all source lines
        sqlp = conc.sql_switch_points(n, len(case["workers"]), 70, case["salt"])
        others = max(1, len(case["workers"]) - 1)
        relp = [{r: (i + case["salt"]) % others} for i, r in enumerate(sorted(set(LAST_RELEASES))[:25]) if r < n]
        pts = sqlp + [p for p in relp if p not in sqlp] + [p for p in pts if p not in sqlp and p not in relp][:8]
        ctx.event("sql_boundary_preemptions", len(sqlp))
        ctx.event("lock_release_preemptions", len(relp))
    import time as _time

    t_end = _time.monotonic() + (30.0 if ctx.tier == "quick" and not case.get("pairs") else 1e9)
    done = 0
    for sched_ in case["multi"]:
        one({min(int(f * n), n - 1): c for f, c in sched_})
    for p in pts:
        if _time.monotonic() > t_end:
            ctx.event("schedules_not_run_time_cap", len(pts) - done)
            break
        one(p)
        done += 1
    if lay in ("threads:inmemory", "threads:journal_redis") and case.get("pairs"):
        # two preemptions: the first right after a lock release (the worker has left its critical
        # section but not yet used what it computed there), the second anywhere later
        rel = list(LAST_RELEASES)[:10]
        total = sum(n - r for r in rel)
        stride = max(1, -(-total // (60 if ctx.tier == "quick" else 100000)))
        for r in rel:
            for s2 in range(r + 1 + (r % stride), n, stride):
                one({r: 0, s2: 0})
        ctx.event("scenarios_with_release_x_anywhere_pairs")
    ctx.event("scenarios")
    ctx.event("yield_points", n)


# ---- the classic same-object races, systematically on every layout ---------------------------

CLASSIC = [
    ("create/create", ["running"], [[["ct", 0]], [["ct", 0]]]),
    ("create-study/create-study", ["running"], [[["cs", "shared"]], [["cs", "shared"]]]),
    ("claim/claim", ["waiting"], [[["ss", 0, "RUNNING", 0]], [["ss", 0, "RUNNING", 0]]]),
    ("finish/finish", ["running"], [[["ss", 0, "COMPLETE", 1]], [["ss", 0, "FAIL", 0]]]),
    ("create-from-template/read", ["running"], [[["ctt", 0, {"state": "COMPLETE", "with_values": True, "values": [1.0, 2.0, 3.0], "params": [["x", 0, 0.5]], "user_attrs": {"a": 1}, "system_attrs": {"b": 2}, "iv": [[0, 0.5]], "start_us": 10**12, "dur_us": 7, "waiting_has_start": False}]], [["gat", 0], ["gat", 0]]]),
    ("write/finish/read", ["running"], [[["ua", 0, "a", 1, True], ["iv", 0, 0, 1.0]], [["ss", 0, "COMPLETE", 1]], [["gt", 0], ["gat", 0]]]),
    ("create+write/read", ["running"], [[["ct", 0], ["sp", "mine", "x", 0.5], ["ss", "mine", "COMPLETE", 2]], [["gat", 0], ["gn", 0], ["gat", 0]]]),
    ("attr/attr same key", ["running"], [[["ua", 0, "a", 1, True]], [["ua", 0, "a", 2, True]], [["gt", 0]]]),
    ("create, create (snapshot) / writes", ["running"], [[["ct", 0], ["ct", 0]], [["ua", 0, "a", 1, True], ["iv", 0, 0, 1.0], ["ua", 0, "b", 2, True]]]),
    ("finish A / finish B (incrementally kept best trial)", ["complete", "running", "running"], [[["ss", 1, "COMPLETE", -3]], [["ss", 2, "COMPLETE", -1]], [["gat", 0]]]),
    ("finish, refresh / single read", ["running"], [[["ss", 0, "COMPLETE", 1], ["gat", 0]], [["gt", 0], ["gt", 0]]]),
    ("refresh / create / single read", ["running", "running"], [[["gat", 0], ["gat", 0]], [["ct", 0], ["gt", "mine"], ["ss", "mine", "FAIL", 0]]]),
    # a snapshot of all trials against two ordered writes to a low- and a high-numbered trial
    # (yield points between the elements of the list being copied): the snapshot may not contain
    # the second write without the first
    ("snapshot / ordered writes to two trials", ["running", "running", "running"], [[["gat", 0, True]], [["ua", 0, "a", 1, True], ["ua", 2, "b", 2, True]]]),
    # a call that is rejected (finished trial / duplicate study name) followed by reads of the same
    # worker, against another worker's create: the rejected call may not hide the other's write
    ("rejected write, read / create", ["complete"], [[["ss", 0, "FAIL", 0], ["gat", 0], ["gat", 0]], [["ct", 0]]]),
    ("rejected create-study, read / create", ["running"], [[["cs", "base"], ["gat", 0], ["gat", 0]], [["ct", 0]]]),
    # a snapshot against "finish an old trial, then create a new one": the snapshot may not hold
    # the new trial together with the old one still unfinished
    ("snapshot / finish old, create new", ["running"], [[["gat", 0]], [["ss", 0, "COMPLETE", 1], ["ct", 0], ["ss", "mine", "FAIL", 0]]]),
]


def enum_classic(ctx: Ctx, tier: str, shard: int, nshards: int) -> None:
    jobs = [(li, ci, lay, name, pre, workers) for li, lay in enumerate(LAYOUTS) for ci, (name, pre, workers) in enumerate(CLASSIC)]
    for i, (li, ci, lay, name, pre, workers) in enumerate(jobs):
        # (the cost of a job is roughly cost(race) x cost(layout): every shard gets a mix of both)
        if (li * 5 + ci) % nshards != shard:
            continue
        case = {"layout": lay, "pre": pre, "workers": workers, "multi": [], "salt": i, "pairs": True}
        ctx.sub = "classic"
        run_scenario(case, ctx)
        ctx.event("classic:" + name)
    ctx.exhaustive_parts.append("the sixteen classic races on all twelve layouts: every single-preemption schedule on the in-memory layout (quick tier: every second yield point on the fakeredis thread layout, 70 / 40 sampled switch points on the 'process' fakeredis / journal-file layouts, every SQL-statement / commit / lock-release boundary plus 8 sampled points on the SQLite layouts (C08 runs its read races on threads:cached_sqlite with every yield point), a rotating stride so that a window wider than the stride is always hit; thorough tier: all)")


CHECKS = [
    Check("scenario", lambda tier: case_scenario(), run_scenario, {"quick": 20, "thorough": 1500}, budget_s={"quick": 170, "thorough": 3000}, shrink=False, case_timeout=1500),
]
ENUMS = [Enum("classic", enum_classic)]
REPLAY = {"classic": run_scenario}
