"""C14  Exhaustive samplers visit every point of a finite space exactly once, then stop."""
from __future__ import annotations

import warnings
from typing import Any

from hypothesis import strategies as st

from core import backends
from core.runner import Check, Ctx, Violation

ID = "C14"
LEVEL = "exploration"
RULE = (
    "Hypothesis generates finite define-by-run programs: a tree whose inner nodes are "
    "suggestions (stepped floats incl. steps that are not short binary fractions, ints with "
    "step, categoricals, single-value domains; a numeric name may come with another range on "
    "another path, as in the sampler's docstring example b = suggest_int('b', a, 3)), whose "
    "children may be one shared sub-program or differ per value (branches of different depth "
    "and parameter order), and whose leaves complete, fail (raise, caught) or prune as a "
    "function of the path; up to 60 leaves; sampler seed and avoid_premature_stop generated; "
    "the run is split into optimize(n_trials=k) pieces at generated points and may be "
    "interrupted by an uncaught exception and resumed; backends in-memory, SQLite, journal "
    "file, gRPC over in-memory. Grid sampler: generated grids (1-4 names, 1-4 values each, "
    "ints/floats/str/bool/None, and numeric choices with NaN among them) with matching suggest calls, same splits/failures. Oracle: the "
    "multiset of parameter dicts of all trials equals the set of leaf paths (grid cells), each "
    "exactly once, every trial is finished, and the last optimize() without n_trials returned "
    "by itself (a cap of leaves+5 trials being hit is the violation 'did not stop'). "
    "Non-trivial = conditional branch, failing/pruned leaf or a split/interrupted run; distinct "
    "= distinct program."
)
ASSUMPTIONS = [
    "sequential optimisation (n_jobs=1), a fresh study per program",
    "failures and prunes happen at leaves (a trial that dies between two suggestions makes the search space inconsistent, which the sampler documents as unsupported); a parameter name has one distribution in the whole program (documented limitation)",
    "split pieces sum to fewer trials than there are leaves (a new optimize() call legitimately resets the stop flag, so a call made after exhaustion re-evaluates one point)",
]

# name -> (kind, args): small finite domains
POOL: dict[str, tuple[str, tuple[Any, ...]]] = {
    "c": ("cat", (("a", "b", "c"),)),
    "b": ("cat", ((True, False),)),
    "n": ("int", (0, 3, 1)),
    "m": ("int", (1, 7, 3)),
    "one": ("int", (5, 5, 1)),
    "x": ("float", (0.0, 1.0, 0.5)),
    "y": ("float", (0.1, 0.7, 0.2)),
    "z": ("float", (0.1, 0.7, 0.1)),
    "u": ("float", (0.05, 0.35, 0.05)),
    "k": ("cat", ((None, 1, "1", 1.5),)),
    "s": ("cat", (("only",),)),
}


# the same numeric name with another range on another path (the sampler's own docstring example:
# b = suggest_int("b", a, 3)): node["var"] picks the range
VARIANTS: dict[str, list[tuple[Any, ...]]] = {
    "n": [(0, 3, 1), (1, 3, 1), (2, 3, 1), (0, 2, 2), (3, 3, 1)],
    "m": [(1, 7, 3), (4, 7, 3), (1, 4, 3)],
    "x": [(0.0, 1.0, 0.5), (0.5, 1.0, 0.5), (0.0, 0.5, 0.5)],
    "y": [(0.1, 0.7, 0.2), (0.3, 0.7, 0.2), (0.1, 0.5, 0.2)],
}


def pool(node: dict[str, Any]) -> tuple[str, tuple[Any, ...]]:
    kind, a = POOL[node["p"]]
    if node.get("var"):
        a = VARIANTS[node["p"]][node["var"]]
    return kind, a


def domain(name: Any, var: int = 0) -> list[Any]:
    import optuna.distributions as D

    if isinstance(name, dict):
        name, var = name["p"], name.get("var", 0)
    kind, a = POOL[name]
    if var:
        a = VARIANTS[name][var]
    if kind == "cat":
        return list(a[0])
    if kind == "int":
        return list(range(a[0], a[1] + 1, a[2]))
    d = D.FloatDistribution(a[0], a[1], step=a[2])
    from fractions import Fraction

    n = int(round((d.high - d.low) / d.step))
    # members of the documented domain {low + k*step}; compared with a tolerance below
    return [float(Fraction(str(a[0])) + k * Fraction(str(a[2]))) for k in range(n + 1)]


@st.composite
def program(draw: Any, used: tuple[str, ...] = (), depth: int = 0, budget: list[int] | None = None) -> dict[str, Any]:
    budget = budget if budget is not None else [60]
    avail = [n for n in sorted(POOL) if n not in used]
    if depth >= 4 or not avail or budget[0] <= 1 or (depth > 0 and draw(st.integers(0, 3)) == 0):
        return {"leaf": draw(st.sampled_from(["complete", "complete", "complete", "fail", "prune"])), "value": float(draw(st.integers(-5, 5)))}
    name = draw(st.sampled_from(avail + [n for n in avail if n in VARIANTS]))
    var = draw(st.integers(0, len(VARIANTS[name]) - 1)) if name in VARIANTS and draw(st.booleans()) else 0
    dom_n = len(domain(name, var))
    if dom_n > budget[0]:
        return {"leaf": "complete", "value": 0.0}
    budget[0] -= dom_n - 1
    if draw(st.booleans()):
        sub = draw(program(used + (name,), depth + 1, budget))
        # a shared sub-program multiplies the leaves
        kids = [sub] * dom_n
    else:
        kids = [draw(program(used + (name,), depth + 1, budget)) for _ in range(dom_n)]
    return {"p": name, "var": var, "kids": kids}


def leaves(node: dict[str, Any], path: tuple[tuple[str, Any], ...] = ()) -> list[tuple[tuple[tuple[str, Any], ...], str]]:
    if "leaf" in node:
        return [(path, node["leaf"])]
    out = []
    for v, kid in zip(domain(node), node["kids"]):
        out += leaves(kid, path + ((node["p"], v),))
    return out


def n_leaves(node: dict[str, Any]) -> int:
    if "leaf" in node:
        return 1
    return sum(n_leaves(k) for k in node["kids"])


@st.composite
def case_brute(draw: Any) -> dict[str, Any]:
    prog = draw(program())
    if n_leaves(prog) > 60:
        prog = {"p": "c", "kids": [{"leaf": "complete", "value": 0.0}, {"leaf": "fail", "value": 0.0}, {"p": "b", "kids": [{"leaf": "prune", "value": 1.0}, {"leaf": "complete", "value": 2.0}]}]}
    return {
        "program": prog,
        "seed": draw(st.integers(0, 2**31 - 1)),
        "avoid_premature_stop": draw(st.booleans()),
        "splits": draw(st.lists(st.integers(1, 8), max_size=3)),
        "interrupt_at": draw(st.one_of(st.none(), st.integers(0, 40))),
        "backend": draw(st.sampled_from(["inmemory", "inmemory", "sqlite", "journal_file", "grpc:inmemory"])),
    }


class Interrupt(Exception):
    pass


def _same(a: Any, b: Any) -> bool:
    if isinstance(a, float) and isinstance(b, float):
        return abs(a - b) <= 1e-9
    return type(a) is type(b) and a == b


def _key(params: dict[str, Any]) -> tuple[Any, ...]:
    return tuple(sorted((k, type(v).__name__, repr(round(v, 9) + 0.0) if isinstance(v, float) else repr(v)) for k, v in params.items()))


def drive(study: Any, objective: Any, total: int, splits: list[int], interrupt_at: int | None, counter: list[int], case: Any, what: str) -> None:
    """Split run + optional uncaught interruption + final optimize() that must stop by itself."""
    import optuna

    cap = total + 5
    budget_left = total - 1
    pieces = []
    for k in splits:
        if k <= budget_left:
            pieces.append(k)
            budget_left -= k

    def cb(study: Any, trial: Any) -> None:
        if len(study.get_trials(deepcopy=False)) >= cap:
            study.stop()

    def run(n: int | None) -> bool:
        try:
            study.optimize(objective, n_trials=n, catch=(ValueError,), callbacks=[cb])
            return False
        except Interrupt:
            return True  # cut short by the uncaught exception

    for k in pieces:
        run(k)
    while run(None):  # resume after an interruption (it fires at most once)
        pass
    if len(study.get_trials(deepcopy=False)) >= cap:
        raise Violation(f"{what}-did-not-stop", f"{what}: {cap} trials run for a space of {total} points: {[t.params for t in study.get_trials(deepcopy=False)]}", case)


def run_brute(case: dict[str, Any], ctx: Ctx) -> None:
    import optuna
    from optuna.trial import TrialState

    optuna.logging.set_verbosity(optuna.logging.ERROR)
    warnings.simplefilter("ignore")
    prog = case["program"]
    lv = leaves(prog)
    total = len(lv)
    conditional = _has_branch(prog)
    splits = case["splits"]
    ia = case["interrupt_at"]
    if ia is not None and ia >= total - 1:
        ia = None
    ctx.case(
        fp=case,
        nontrivial=conditional or any(k != "complete" for _, k in lv) or bool(splits) or ia is not None,
        classes=["conditional" if conditional else "product", "fail/prune" if any(k != "complete" for _, k in lv) else "all-complete", "split" if splits else "one-call", "interrupted" if ia is not None else "uninterrupted", case["backend"], "leaves%d" % (min(total, 59) // 10 * 10)],
        sample=case,
    )
    counter = [0, False]  # evaluations, interrupted?

    def objective(trial: Any) -> float:
        node = prog
        while "leaf" not in node:
            kind, a = pool(node)
            if kind == "cat":
                v = trial.suggest_categorical(node["p"], list(a[0]))
            elif kind == "int":
                v = trial.suggest_int(node["p"], a[0], a[1], step=a[2])
            else:
                v = trial.suggest_float(node["p"], a[0], a[1], step=a[2])
            dom = domain(node)
            idx = next((i for i, d in enumerate(dom) if _same(d, v)), None)
            if idx is None:
                raise Violation("suggested-value-outside-domain", f"{node['p']}: {v!r} not in {dom}", case)
            node = node["kids"][idx]
        i = counter[0]
        counter[0] += 1
        if ia is not None and i == ia and not counter[1]:
            counter[1] = True
            raise Interrupt()
        if node["leaf"] == "fail":
            raise ValueError("leaf fails")
        if node["leaf"] == "prune":
            raise optuna.TrialPruned()
        return node["value"]

    # Recorded finding: GrpcStorageProxy transports params/distributions as protobuf maps, which do
    # not keep the order of suggestion; BruteForceSampler rebuilds its tree from that order.  A
    # program with two or more parameters on one path therefore cannot be explored through the
    # proxy.  Such (backend, program) pairs are carved out; single-parameter paths stay checked.
    max_depth = max(len(p) for p, _ in lv)
    grpc_order = case["backend"].startswith("grpc:") and max_depth >= 2
    fac = backends.factory(ctx.tmpdir())
    try:
        try:
            _run_brute_inner(case, ctx, fac, objective, total, splits, ia, counter, lv)
        except (Violation, ValueError) as e:
            if isinstance(e, ValueError) and "mismatch" not in str(e):
                raise
            if grpc_order and ctx.known("bruteforce-over-grpc-proxy-loses-parameter-order", f"{type(e).__name__}: {str(e)[:200]}"):
                return
            if isinstance(e, ValueError):
                raise Violation(
                    "bruteforce-over-grpc-proxy-loses-parameter-order" if grpc_order else "brute-force-tree-mismatch",
                    f"backend={case['backend']}: BruteForceSampler raised ValueError: {e}",
                    case,
                )
            if grpc_order:
                e.sig = "bruteforce-over-grpc-proxy-loses-parameter-order"
            raise
    finally:
        fac.release()


def _run_brute_inner(case: Any, ctx: Ctx, fac: Any, objective: Any, total: int, splits: Any, ia: Any, counter: Any, lv: Any) -> None:
    import optuna
    from optuna.trial import TrialState

    if True:
        storage = fac.make(case["backend"])
        sampler = optuna.samplers.BruteForceSampler(seed=case["seed"], avoid_premature_stop=case["avoid_premature_stop"])
        study = optuna.create_study(storage=storage, study_name="c14", sampler=sampler)
        drive(study, objective, total, splits, ia, counter, case, "brute-force")
        trials = study.get_trials(deepcopy=False)
        if any(not t.state.is_finished() for t in trials):
            raise Violation("unfinished-trial", f"{[(t.number, t.state.name) for t in trials]}", case)
        got = sorted(_key(t.params) for t in trials)
        exp = sorted(_key(dict(p)) for p, _ in lv)
        if got != exp:
            missing = [e for e in exp if e not in got]
            dup = sorted({g for g in got if got.count(g) > 1})
            extra = [g for g in got if g not in exp]
            raise Violation(
                "brute-force-not-exactly-once",
                f"{len(trials)} trials for {total} leaves; missing {missing[:5]}, duplicated {dup[:5]}, unexpected {extra[:5]} (seed={case['seed']}, avoid_premature_stop={case['avoid_premature_stop']}, splits={splits}, interrupt_at={ia}, backend={case['backend']})",
                case,
            )
        # leaf kinds are as programmed
        for t in trials:
            kind = next(k for p, k in lv if _key(dict(p)) == _key(t.params))
            want = {"complete": TrialState.COMPLETE, "fail": TrialState.FAIL, "prune": TrialState.PRUNED}[kind]
            if t.state != want and not (counter[1] and t.state == TrialState.FAIL):
                raise Violation("leaf-state", f"trial {t.number} {t.params}: {t.state.name}, program says {kind}", case)


def _has_branch(node: dict[str, Any]) -> bool:
    if "leaf" in node:
        return False
    shapes = {repr(_shape(k)) for k in node["kids"]}
    return len(shapes) > 1 or any(_has_branch(k) for k in node["kids"])


def _shape(node: dict[str, Any]) -> Any:
    if "leaf" in node:
        return "L"
    return (node["p"], [_shape(k) for k in node["kids"]])


# ---- grid ---------------------------------------------------------------------------------


grid_values = st.one_of(
    st.lists(st.integers(-3, 9), min_size=1, max_size=4, unique=True).map(lambda v: ["int", v]),
    st.lists(st.sampled_from([0.0, 0.1, 0.25, 0.5, 1.0, 2.5, -1.5]), min_size=1, max_size=4, unique=True).map(lambda v: ["float", v]),
    st.lists(st.sampled_from(["a", "b", "c", None, True, False, "1"]), min_size=1, max_size=4, unique_by=lambda x: (type(x).__name__, x)).map(lambda v: ["cat", v]),
    # numeric choices with NaN among them (a grid value that is not equal to itself, and that comes
    # back from a JSON / SQL / protobuf backend as another object)
    st.lists(st.sampled_from([0, 1, 2.5, "a", None]), min_size=0, max_size=3, unique_by=lambda x: (type(x).__name__, x)).map(lambda v: ["cat", v + [float("nan")]]),
)


@st.composite
def case_grid(draw: Any) -> dict[str, Any]:
    names = draw(st.lists(st.sampled_from(["a", "b", "c", "d"]), min_size=1, max_size=4, unique=True))
    grid = {n: draw(grid_values) for n in names}
    return {
        "grid": grid,
        "order": draw(st.permutations(names)),
        "seed": draw(st.integers(0, 2**31 - 1)),
        "fail_mod": draw(st.sampled_from([0, 0, 2, 3])),
        "splits": draw(st.lists(st.integers(1, 8), max_size=3)),
        "interrupt_at": draw(st.one_of(st.none(), st.integers(0, 40))),
        "backend": draw(st.sampled_from(["inmemory", "sqlite", "journal_file", "grpc:inmemory"])),
    }


def run_grid(case: dict[str, Any], ctx: Ctx) -> None:
    import itertools

    import optuna

    optuna.logging.set_verbosity(optuna.logging.ERROR)
    warnings.simplefilter("ignore")
    grid = case["grid"]
    names = list(case["order"])
    cells = list(itertools.product(*[grid[n][1] for n in names]))
    total = len(cells)
    ia = case["interrupt_at"]
    if ia is not None and ia >= total - 1:
        ia = None
    ctx.case(
        fp=case,
        nontrivial=total > 1 and (bool(case["splits"]) or case["fail_mod"] > 0 or ia is not None or len(names) > 1),
        classes=["grid", case["backend"], "split" if case["splits"] else "one-call", "cells%d" % (min(total, 99) // 10 * 10)],
        sample=case,
    )
    counter = [0, False]

    def objective(trial: Any) -> float:
        vals = {}
        for n in names:
            kind, vs = grid[n]
            if kind == "int":
                vals[n] = trial.suggest_int(n, min(vs), max(vs))
            elif kind == "float":
                vals[n] = trial.suggest_float(n, min(vs), max(vs))
            else:
                vals[n] = trial.suggest_categorical(n, vs)
        i = counter[0]
        counter[0] += 1
        if ia is not None and i == ia and not counter[1]:
            counter[1] = True
            raise Interrupt()
        if case["fail_mod"] and i % case["fail_mod"] == 1:
            raise ValueError("cell fails")
        return float(i)

    fac = backends.factory(ctx.tmpdir())
    try:
        storage = fac.make(case["backend"])
        sampler = optuna.samplers.GridSampler({n: grid[n][1] for n in sorted(grid)}, seed=case["seed"])
        study = optuna.create_study(storage=storage, study_name="c14g", sampler=sampler)
        drive(study, objective, total, case["splits"], ia, counter, case, "grid")
        trials = study.get_trials(deepcopy=False)
        if any(not t.state.is_finished() for t in trials):
            raise Violation("unfinished-trial", f"{[(t.number, t.state.name) for t in trials]}", case)
        got = sorted(_key(t.params) for t in trials)
        exp = sorted(_key(dict(zip(names, c))) for c in cells)
        if got != exp:
            missing = [e for e in exp if e not in got]
            dup = sorted({g for g in got if got.count(g) > 1}, key=repr)
            raise Violation("grid-not-exactly-once", f"{len(trials)} trials for {total} cells; missing {missing[:5]}, duplicated {dup[:5]} (splits={case['splits']}, interrupt_at={ia}, backend={case['backend']})", case)
    finally:
        fac.release()


CHECKS = [
    Check("brute", lambda tier: case_brute(), run_brute, {"quick": 800, "thorough": 24000}, budget_s={"quick": 120, "thorough": 1800}),
    Check("grid", lambda tier: case_grid(), run_grid, {"quick": 400, "thorough": 12000}, budget_s={"quick": 60, "thorough": 900}),
]
