"""C06  Journal replay is deterministic: all workers converge on the same state."""
from __future__ import annotations

import os
import warnings
from typing import Any

from hypothesis import strategies as st

from core import backends
from core.model import ModelStorage, deep_eq
from core.runner import Check, Ctx, Violation
from core.storage_ops import Backend, full_dump_check, model_outcome, op, plan

ID = "C06"
LEVEL = "exploration"
RULE = (
    "Hypothesis generates 2-4 JournalStorage workers over one backend (file with either lock, "
    "fakeredis with a small snapshot interval) and a sequential interleaving of 5-60 storage calls "
    "-- workers are independently constructed storages or pickled copies of worker 0 -- "
    "(the C01 op generator: accepted and rejected ones -- duplicate study name, write to a "
    "finished trial, unknown / deleted ids, incompatible distribution, create-trial in a deleted "
    "study), each issued by a chosen worker; some calls carry an *intruder*: another worker's "
    "call whose record is appended between the issuer's append and the issuer's read, so that "
    "records follow a (possibly rejected) record inside one replay batch; 2-3 read-only observer "
    "workers sync at generated points (every batch split a correct backend can produce); new "
    "workers join at generated points (snapshot + tail). Oracle: every call returns what "
    "ModelStorage returns when the accepted operations are applied in log order (ids are "
    "handles: allocation is part of the replayed state); after all workers sync, every worker, "
    "observer, late joiner and a fresh replay from record 0 show the model's full readable "
    "state, and their trial objects (timestamps included) are pairwise equal. Non-trivial = "
    "records of at least two workers interleaved and either a rejected record or a worker that "
    "replays a batch of more than one record; distinct = distinct (outcome sequence, issuers)."
)
ASSUMPTIONS = [
    "fakeredis stands in for Redis",
    "the intruder mechanism is a plain BaseJournalBackend wrapper (public API): it delegates reads and appends unchanged and only runs another worker's call after the issuer's append",
    "inputs on which the storage contract is silent are excluded as in C01",
]


class _Ident:
    """handle -> id table of a journal storage: ids are allocation counters of the log."""

    def __init__(self, n: Any) -> None:
        self._n = n

    def __len__(self) -> int:
        return self._n()

    def __getitem__(self, h: int) -> int:
        return h

    def __iter__(self) -> Any:
        return iter(range(self._n()))

    def __add__(self, other: Any) -> list[int]:
        return list(range(self._n())) + list(other)

    def append(self, i: int) -> None:
        pass


@st.composite
def case_log(draw: Any) -> dict[str, Any]:
    nw = draw(st.integers(2, 4))
    n = draw(st.integers(5, 60))
    steps = []
    for _ in range(n):
        w = draw(st.integers(0, nw - 1))
        intr = None
        if draw(st.integers(0, 3)) == 0:
            intr = {"w": (w + draw(st.integers(1, nw - 1))) % nw, "op": draw(op())}
        steps.append(
            {
                "w": w,
                "op": draw(op()),
                "intr": intr,
                "obs": draw(st.lists(st.integers(0, 3).map(lambda x: x == 0), min_size=3, max_size=3)),
                "join": draw(st.integers(0, 9)) == 0,
            }
        )
    return {
        "backend": draw(st.sampled_from(["file", "file_open", "redis", "redis"])),
        "snapshot_interval": draw(st.sampled_from([2, 3, 5, 100])),
        "n_workers": nw,
        # worker i >= 1 is a pickled copy of worker 0 (how process pools / joblib / dask hand a
        # storage to their workers) instead of an independently constructed storage; late joiners
        # likewise copy a worker
        "pickled": draw(st.lists(st.booleans(), min_size=nw, max_size=nw)),
        "first": [draw(st.sampled_from(["s0", "s1"])), draw(st.sampled_from(["MINIMIZE", "MAXIMIZE"]))],
        "steps": steps,
    }


def _hook_classes() -> Any:
    """The intruder hook as module-level classes (workers obtained by pickling another worker
    must be able to pickle their backend)."""
    g = globals()
    if "Hook" in g:
        return g["Hook"], g["HookSnap"]
    from optuna.storages.journal import BaseJournalBackend
    from optuna.storages.journal._base import BaseJournalSnapshot

    class Hook(BaseJournalBackend):
        def __init__(self, inner: Any) -> None:
            self.inner = inner
            self.pending: Any = None
            self.read_sizes: list[int] = []

        def read_logs(self, k: int) -> list[dict[str, Any]]:
            logs = self.inner.read_logs(k)
            self.read_sizes.append(len(logs))
            return logs

        def append_logs(self, logs: list[dict[str, Any]]) -> None:
            self.inner.append_logs(logs)
            if self.pending is not None:
                f, self.pending = self.pending, None
                f()

    class HookSnap(Hook, BaseJournalSnapshot):
        def save_snapshot(self, s: bytes) -> None:
            self.inner.save_snapshot(s)

        def load_snapshot(self) -> bytes | None:
            return self.inner.load_snapshot()

    for c in (Hook, HookSnap):
        c.__qualname__ = c.__name__
        c.__module__ = __name__
        g[c.__name__] = c
    return Hook, HookSnap


def run_log(case: dict[str, Any], ctx: Ctx) -> None:
    import fakeredis
    import optuna
    import optuna.storages.journal._storage as js
    from optuna.storages import JournalStorage
    from optuna.storages.journal import BaseJournalBackend, JournalFileBackend, JournalFileOpenLock, JournalFileSymlinkLock, JournalRedisBackend
    from optuna.storages.journal._base import BaseJournalSnapshot

    optuna.logging.set_verbosity(optuna.logging.ERROR)
    warnings.simplefilter("ignore")

    Hook, HookSnap = _hook_classes()

    path = os.path.join(ctx.tmpdir(), f"c06-{os.getpid()}.log")
    for p in (path, path + ".lock"):
        if os.path.lexists(p):
            os.unlink(p)
    redis = fakeredis.FakeStrictRedis()

    def mkb() -> Any:
        if case["backend"] == "redis":
            b = JournalRedisBackend("redis://localhost")
            b._redis = redis
            return b
        lock = JournalFileSymlinkLock(path) if case["backend"] == "file" else JournalFileOpenLock(path)
        return JournalFileBackend(path, lock_obj=lock)

    def hooked() -> Any:
        b = mkb()
        return (HookSnap if isinstance(b, BaseJournalSnapshot) else Hook)(b)

    old_interval = js.SNAPSHOT_INTERVAL
    js.SNAPSHOT_INTERVAL = case["snapshot_interval"]
    try:
        m = ModelStorage()
        sid = _Ident(lambda: len(m.studies))
        tid = _Ident(lambda: len(m.trials))

        def wrap(kind: str, s: Any) -> Backend:
            b = Backend(kind, s)
            b.sid, b.tid = sid, tid  # type: ignore[assignment]
            return b

        import pickle

        def copy_of(src: Any) -> Any:
            c = pickle.loads(pickle.dumps(src))
            inner = getattr(c._backend, "inner", c._backend)
            if case["backend"] == "redis":
                inner._redis = redis  # a restored redis backend reconnects by URL: point it at the fake again
            return c

        W = [wrap("worker0", JournalStorage(hooked()))]
        for i in range(1, case["n_workers"]):
            if case.get("pickled", [False] * 8)[i]:
                W.append(wrap(f"worker{i}(pickled copy of worker0)", copy_of(W[0].s)))
                ctx.event("pickled_workers")
            else:
                W.append(wrap(f"worker{i}", JournalStorage(hooked())))
        observers = [wrap(f"observer{i}", JournalStorage(mkb())) for i in range(3)]
        joiners: list[Backend] = []
        trace: list[str] = []
        issuers: list[int] = []
        rejected = 0
        lag_batches = 0
        log_len = 0  # records appended so far (every call appends exactly one record)
        seen = [0] * case["n_workers"]  # log length each worker has replayed

        def check(b: Backend, pl: Any, exp: Any, r: Any, who: str) -> None:
            if pl.creates is not None and exp[0] == "ok":
                pass  # ids are handles: compared as ordinary return values
            if not (r[0] == exp[0] and deep_eq(r[1], exp[1])):
                raise Violation(
                    f"{pl.name}:result-differs",
                    f"{case['backend']} {who}: step {len(trace)} {pl.name} -> {str(r)[:300]}, log-order model {exp!r}; outcomes so far {trace}",
                    case,
                )

        steps = [{"w": 0, "op": ["create_study", case["first"][0], [case["first"][1]]], "intr": None, "obs": [False] * 3, "join": False}] + case["steps"]
        for stp in steps:
            a = W[stp["w"]]
            pl_a = plan(m, stp["op"], ctx)
            if pl_a is None:
                continue
            exp_a = model_outcome(pl_a)
            pl_b = exp_b = None
            res_b: list[Any] = []
            if stp["intr"] is not None:
                pl_b = plan(m, stp["intr"]["op"], ctx)
                if pl_b is not None:
                    exp_b = model_outcome(pl_b)
                    bw = W[stp["intr"]["w"]]
                    a.s._backend.pending = lambda bw=bw, pl_b=pl_b: res_b.append(bw.call(lambda: pl_b.bf(bw)))
            if log_len - seen[stp["w"]] >= 1:
                lag_batches += 1
            r_a = a.call(lambda: pl_a.bf(a))
            a.s._backend.pending = None
            log_len += 1
            if pl_b is not None:
                log_len += 1
                seen[stp["intr"]["w"]] = log_len
            seen[stp["w"]] = log_len
            check(a, pl_a, exp_a, r_a, f"worker{stp['w']}")
            trace.append(f"{pl_a.name}:{exp_a[1] if exp_a[0] == 'exc' else 'ok'}")
            issuers.append(stp["w"])
            rejected += exp_a[0] == "exc"
            if pl_b is not None:
                if not res_b:
                    raise Violation("intruder-did-not-run", "harness: append hook not reached", case)
                check(W[stp["intr"]["w"]], pl_b, exp_b, res_b[0], f"worker{stp['intr']['w']} (record appended between the issuer's append and read)")
                trace.append(f"{pl_b.name}:{exp_b[1] if exp_b[0] == 'exc' else 'ok'}")
                issuers.append(stp["intr"]["w"])
                rejected += exp_b[0] == "exc"
                ctx.event("intruder_records")
                if exp_a[0] == "exc":
                    ctx.event("record_follows_rejected_record_in_one_batch")
            for o, flag in zip(observers, stp["obs"]):
                if flag:
                    o.s.get_all_studies()
            if stp["join"]:
                if case.get("pickled", [False])[0]:
                    joiners.append(wrap(f"joiner@{log_len}(pickled copy of worker{stp['w']})", copy_of(a.s)))
                else:
                    joiners.append(wrap(f"joiner@{log_len}", JournalStorage(mkb())))
                ctx.event("late_joiners")

        fresh = wrap("fresh replay", JournalStorage(mkb()))
        everyone = W + observers + joiners + [fresh]
        compared = 0
        for b in everyone:
            b.s.get_all_studies()  # sync
            compared += full_dump_check(m, b, case, f"after all workers synced ({b.kind})")
        # pairwise identity of what the workers hold (timestamps included)
        ref = None
        for b in everyone:
            snap = []
            for fs in b.s.get_all_studies():
                snap.append((fs._study_id, fs.study_name, [(t._trial_id, t.number, t.state, t.datetime_start, t.datetime_complete) for t in b.s.get_all_trials(fs._study_id, deepcopy=False)]))
            if ref is None:
                ref = (b.kind, snap)
            elif snap != ref[1]:
                raise Violation("workers-disagree", f"{case['backend']}: {b.kind} vs {ref[0]}: {snap} vs {ref[1]}", case)
        multi = len(set(issuers)) >= 2
        ctx.case(
            fp=[trace, issuers],
            nontrivial=multi and (rejected > 0 or lag_batches > 0),
            classes=[case["backend"], f"snap{case['snapshot_interval']}", "rejected" if rejected else "all-accepted", "lagging" if lag_batches else "no-lag"],
            sample=case,
        )
        ctx.event("rejected_records", rejected)
        ctx.event("compared_reads", compared)
    finally:
        js.SNAPSHOT_INTERVAL = old_interval
        for p in (path, path + ".lock"):
            if os.path.lexists(p):
                os.unlink(p)


CHECKS = [
    Check("log", lambda tier: case_log(), run_log, {"quick": 640, "thorough": 20000}, budget_s={"quick": 120, "thorough": 1800}, shrink="ddmin:steps"),
]
