"""C19  Stale-trial recovery fails and retries each dead trial at most once."""
from __future__ import annotations

import collections
import os
import sqlite3
import warnings
from typing import Any

from hypothesis import strategies as st

from core import conc
from core.model import deep_eq
from core.runner import Check, Ctx, Violation
from core.sched import Deadlock, Inconclusive, Scheduler, WorkerDied

ID = "C19"
LEVEL = "exploration"
RULE = (
    "Hypothesis generates scenarios on SQLite with heartbeats enabled (threads sharing one cached "
    "storage, or 'processes' with separate storage objects on one database): a history of "
    "RUNNING trials with an old heartbeat (aged by a direct SQL update), with a fresh heartbeat, "
    "without a heartbeat, finished trials, and stale trials that are themselves retries "
    "(several generations deep), with params, user attrs and intermediate values; "
    "RetryFailedTrialCallback(max_retry in {None, 0, 1, 2}, inherit_intermediate_values); 2-3 "
    "workers each running fail_stale_trials / ask / 'the slow owner of a stale trial completes it "
    "now' in generated order, in a generated local time zone (the database clock is UTC), fresh "
    "heartbeats recorded 1-3 times by the real record_heartbeat; optionally one worker dies "
    "at a generated yield point of its sweep. A deterministic line-level scheduler owns the "
    "interleaving: all single-preemption schedules (quick tier: a stratified sample) plus "
    "generated multi-preemption schedules. Oracle after a final sweep by a live worker: every "
    "stale trial is FAIL; the callback ran at most once per failed trial; at most one retry "
    "exists per failure and none beyond max_retry; each retry carries the original params, "
    "distributions, user attrs (intermediate values iff inherited), failed_trial = first number "
    "of the chain and retry_history = the exact list of ancestors; trials without heartbeat, "
    "with a fresh heartbeat or already finished are unchanged. Non-trivial = two sweeps overlap "
    "on a stale trial, or a worker dies inside a sweep; distinct = distinct (scenario, schedule)."
)
ASSUMPTIONS = [
    "staleness is produced by editing the heartbeat row (the database clock has one-second resolution), not by waiting",
    "a dying worker is a thread that stops at a yield point; its open SQL transaction is rolled back (what SQLite does for a dead process)",
    "line-granular preemption; SQLite busy timeout 0 ('database is locked' is an allowed outcome of a sweep)",
]

LAYOUTS = ["threads:cached_sqlite", "procs:cached_sqlite", "procs:cached_sqlite"]


@st.composite
def case_scenario(draw: Any) -> dict[str, Any]:
    n = draw(st.integers(1, 5))
    trials = []
    for i in range(n):
        kind = draw(st.sampled_from(["stale", "stale", "stale", "fresh", "nobeat", "complete", "failed"]))
        trials.append(
            {
                "kind": kind,
                "generation": draw(st.integers(0, 2)) if kind == "stale" else 0,
                "x": draw(st.integers(0, 9)) / 10,
                "iv": draw(st.booleans()),
                "attr": draw(st.integers(0, 3)),
                # age of a stale heartbeat in seconds (grace period: 3600): just past it, hours,
                # whole days plus a little, many days
                "age": draw(st.sampled_from([3700, 40000, 86400 + 1800, 86400 + 100, 3 * 86400 + 50, 100000, 10**7])),
                # how often the (real) record_heartbeat ran for the trial: the first call inserts
                # the row, later ones update it
                "beats": draw(st.integers(1, 3)),
            }
        )
    if not any(t["kind"] == "stale" for t in trials):
        trials[0]["kind"] = "stale"
    nw = draw(st.integers(2, 3))
    # "finish": the slow-but-alive owner of the first stale trial completes it now
    workers = [draw(st.lists(st.sampled_from(["sweep", "sweep", "ask", "sweep", "finish"]), min_size=1, max_size=2)) for _ in range(nw)]
    workers[0][0] = "sweep"
    workers[1][0] = "sweep"
    return {
        "layout": draw(st.sampled_from(LAYOUTS)),
        # local time zone of the workers (the database clock is UTC)
        "tz": draw(st.sampled_from(["UTC", "UTC", "EST5", "JST-9"])),
        "trials": trials,
        "max_retry": draw(st.sampled_from([None, 0, 1, 2, 3])),
        "inherit": draw(st.booleans()),
        "workers": workers,
        "death": draw(st.one_of(st.none(), st.none(), st.tuples(st.integers(0, nw - 1), st.floats(0, 1)).map(list))),
        "multi": draw(st.lists(st.lists(st.tuples(st.floats(0, 1), st.integers(0, 1)).map(list), min_size=2, max_size=3), max_size=3)),
        "salt": draw(st.integers(0, 1000)),
    }


def execute(case: dict[str, Any], preempt: dict[int, int], tmpdir: str, ctx: Ctx | None, death_at: int | None = None) -> tuple[int, bool]:
    import time as _time

    old_tz = os.environ.get("TZ")
    os.environ["TZ"] = case.get("tz", "UTC")
    _time.tzset()
    try:
        return _execute(case, preempt, tmpdir, ctx, death_at)
    finally:
        if old_tz is None:
            os.environ.pop("TZ", None)
        else:
            os.environ["TZ"] = old_tz
        _time.tzset()


def _execute(case: dict[str, Any], preempt: dict[int, int], tmpdir: str, ctx: Ctx | None, death_at: int | None = None) -> tuple[int, bool]:
    import optuna
    import optuna.storages._callbacks as cbm
    import optuna.storages._heartbeat as hbm
    from optuna.storages import RetryFailedTrialCallback
    from optuna.trial import FrozenTrial, TrialState
    import datetime

    optuna.logging.set_verbosity(optuna.logging.CRITICAL)
    warnings.simplefilter("ignore")
    layout = case["layout"]
    nw = len(case["workers"])
    calls: collections.Counter[int] = collections.Counter()
    retry = RetryFailedTrialCallback(max_retry=case["max_retry"], inherit_intermediate_values=case["inherit"])

    def cb(study: Any, trial: Any) -> None:
        calls[trial.number] += 1
        retry(study, trial)

    sched = Scheduler(preempt=preempt, trace_files=conc.target_files(layout, (hbm.__file__, cbm.__file__)))
    kw = {"heartbeat_interval": 60, "grace_period": 3600, "failed_trial_callback": cb}  # real time must not make fresh beats stale
    with conc.Env(layout, tmpdir, sched, nw, rdb_kwargs=kw) as env:
        s0 = env.setup
        st0 = optuna.create_study(storage=s0, study_name="q", sampler=optuna.samplers.RandomSampler(seed=0))
        sid = st0._study_id
        dist = optuna.distributions.FloatDistribution(0, 1)
        stale_ids, info = [], {}
        now = datetime.datetime.now()
        number = 0
        for spec in case["trials"]:
            k = spec["kind"]
            sysattrs: dict[str, Any] = {}
            if k == "stale" and spec["generation"]:
                # this stale trial is itself the g-th retry of an (imaginary, already failed) chain
                hist = list(range(1000, 1000 + spec["generation"]))
                sysattrs = {"failed_trial": hist[0], "retry_history": hist}
            state = {"complete": TrialState.COMPLETE, "failed": TrialState.FAIL}.get(k, TrialState.RUNNING)
            ft = FrozenTrial(
                number=-1, trial_id=-1, state=state, value=None, values=[1.0] if state == TrialState.COMPLETE else None,
                datetime_start=now, datetime_complete=now if state.is_finished() else None,
                params={"x": spec["x"]}, distributions={"x": dist}, user_attrs={"a": spec["attr"]}, system_attrs=sysattrs,
                intermediate_values={0: 0.5, 3: 0.25} if spec["iv"] else {},
            )
            tid = s0.create_new_trial(sid, ft)
            info[tid] = dict(spec, number=number)
            number += 1
            if k in ("stale", "fresh"):
                for _ in range(spec.get("beats", 1)):
                    s0.record_heartbeat(tid)
            if k == "stale":
                stale_ids.append(tid)
        getattr(s0, "_backend", s0).scoped_session.remove()
        con = sqlite3.connect(env.path + ".db")
        for tid_ in stale_ids:
            con.execute(f"UPDATE trial_heartbeats SET heartbeat = datetime('now', '-{int(info[tid_].get('age', 100000))} seconds') WHERE trial_id = {tid_}")
        con.commit()
        con.close()
        before = {t._trial_id: t for t in env.fresh_view().get_all_trials(sid)}
        stores = env.worker_storages()
        studies = [optuna.load_study(study_name="q", storage=s, sampler=optuna.samplers.RandomSampler(seed=10 + i)) for i, s in enumerate(stores)]
        errors: list[Any] = []
        finish_acked: dict[int, Any] = {}  # trial id -> True (COMPLETE acknowledged) / False (rejected) / None (storage error)
        spans: list[tuple[int, int, int]] = []
        local_steps = [0] * nw

        def worker(i: int) -> Any:
            def run() -> None:
                for a in case["workers"][i]:
                    t0 = sched.steps
                    try:
                        if a == "sweep":
                            optuna.storages.fail_stale_trials(studies[i])
                            spans.append((t0, sched.steps, i))
                        elif a == "finish":
                            tid_f = stale_ids[0]
                            if finish_acked.get(tid_f) is True:
                                continue
                            finish_acked[tid_f] = None
                            try:
                                studies[i]._storage.set_trial_state_values(tid_f, TrialState.COMPLETE, [2.5])
                                finish_acked[tid_f] = True
                            except optuna.exceptions.UpdateFinishedTrialError:
                                finish_acked[tid_f] = False
                            spans.append((t0, sched.steps, i))
                        else:
                            t = studies[i].ask()
                            t.suggest_float("x", 0, 1)
                    except (optuna.exceptions.StorageInternalError, optuna.exceptions.UpdateFinishedTrialError) as e:
                        errors.append((i, a, type(e).__name__))
                        if a == "sweep":
                            spans.append((t0, sched.steps, i))

            return run

        # death: the victim stops for good at its k-th own yield point
        victim = None
        if case["death"] is not None and death_at is not None:
            victim = f"w{case['death'][0]}"
            orig_yield = sched.yield_point
            counter = [0]

            def yield_point(tag: str = "") -> None:
                if sched.me() == victim:
                    counter[0] += 1
                    if counter[0] > death_at:
                        raise WorkerDied()
                orig_yield(tag)

            sched.yield_point = yield_point  # type: ignore[method-assign]
        try:
            res = sched.run({f"w{i}": worker(i) for i in range(nw)})
        except (Deadlock, Inconclusive) as e:
            if ctx is not None:
                ctx.event("inconclusive:" + type(e).__name__)
            return sched.steps, False
        sw = f"layout={layout} schedule {preempt} switches {sched.switches}" + (f" {victim} dies at its yield point {death_at}" if victim else "")
        died = [n for n, r in res.items() if r[0] == "died"]
        for n, r in res.items():
            if r[0] == "exc":
                raise Violation("worker-raised", f"{sw}: {n}: {r[1]!r}", None)
        if ctx is not None:
            for e in errors:
                ctx.event("allowed-error:" + e[2])
        # final sweep by a live worker (sequential)
        view = env.fresh_view()
        live = optuna.load_study(study_name="q", storage=view)
        for _ in range(3):
            optuna.storages.fail_stale_trials(live)
        trials = view.get_all_trials(sid)
        by_id = {t._trial_id: t for t in trials}
        # (1) stale -> FAIL; (5) others untouched
        for tid, spec in info.items():
            t = by_id[tid]
            if spec["kind"] == "stale" and tid in finish_acked:
                # its owner tried to complete it while the sweeps ran: either the owner won
                # (COMPLETE with its value, no failure handling at all) or a sweeper won (FAIL,
                # the owner's call was rejected)
                acked = finish_acked[tid]
                if t.state == TrialState.COMPLETE:
                    if acked is False or t.values != [2.5] or calls[t.number] or any(r.system_attrs.get("retry_history", [None])[-1] == t.number for r in trials):
                        raise Violation("finished-trial-treated-as-failed", f"{sw}: trial {t.number} is COMPLETE with values {t.values} (owner's call acknowledged: {acked}) but the failure callback ran {calls[t.number]} time(s) / retries {[r.number for r in trials if r.system_attrs.get('retry_history', [None])[-1] == t.number]}", None)
                elif t.state == TrialState.FAIL:
                    if acked is True or t.values is not None:
                        raise Violation("finished-trial-overwritten", f"{sw}: the owner's set_trial_state_values(trial {t.number}, COMPLETE, [2.5]) was acknowledged: {acked}, yet the trial is FAIL with values {t.values} (callback ran {calls[t.number]} time(s))", None)
                else:
                    raise Violation("stale-trial-not-failed", f"{sw}: trial {t.number} is {t.state.name}", None)
            elif spec["kind"] == "stale":
                if t.state != TrialState.FAIL:
                    raise Violation("stale-trial-not-failed", f"{sw}: trial {t.number} is {t.state.name}", None)
            else:
                b = before[tid]
                same = all(deep_eq(getattr(t, f), getattr(b, f)) for f in ("state", "values", "params", "user_attrs", "system_attrs", "intermediate_values", "datetime_start", "datetime_complete"))
                if not same:
                    raise Violation("healthy-trial-touched", f"{sw}: trial {t.number} ({spec['kind']}): before {b} after {t}", None)
        # (2) callback at most once per failed trial
        for num, c in calls.items():
            if c > 1:
                raise Violation("failure-callback-ran-twice", f"{sw}: callback ran {c} times for trial {num}; retries: {[(t.number, t.system_attrs.get('retry_history')) for t in trials if 'retry_history' in t.system_attrs]}", None)
        # (3)/(4) retries
        pre_numbers = {spec["number"] for spec in info.values()}
        retries = [t for t in trials if t.number not in pre_numbers and "retry_history" in t.system_attrs]
        for tid, spec in info.items():
            if spec["kind"] != "stale":
                continue
            orig = by_id[tid]
            hist = list(orig.system_attrs.get("retry_history", [])) + [orig.number]
            mine = [t for t in retries if t.system_attrs.get("retry_history") == hist]
            allowed = case["max_retry"] is None or len(hist) <= case["max_retry"]
            if len(mine) > 1:
                raise Violation("two-retries-for-one-failure", f"{sw}: trial {orig.number} has retries {[t.number for t in mine]} (callback calls {calls[orig.number]})", None)
            if mine and not allowed:
                raise Violation("retry-beyond-max_retry", f"{sw}: trial {orig.number} history {hist} max_retry={case['max_retry']}", None)
            if orig.state == TrialState.COMPLETE:
                continue  # (completed by its owner: checked above)
            if not mine and allowed and calls[orig.number] == 1 and not died and not errors:
                raise Violation("retry-missing", f"{sw}: callback ran for trial {orig.number} but no retry with history {hist} exists", None)
            for r in mine:
                exp_iv = orig.intermediate_values if case["inherit"] else {}
                ok = (
                    deep_eq(r.params, orig.params)
                    and r.distributions == orig.distributions
                    and deep_eq(r.user_attrs, orig.user_attrs)
                    and deep_eq(r.intermediate_values, exp_iv)
                    and r.system_attrs.get("failed_trial") == hist[0]
                )
                if not ok:
                    raise Violation("retry-differs-from-original", f"{sw}: original {orig} retry {r}", None)
        for r in retries:
            h = r.system_attrs["retry_history"]
            if not any(by_id[tid].number == h[-1] for tid, s_ in info.items() if s_["kind"] == "stale"):
                raise Violation("retry-of-unknown-trial", f"{sw}: {r.number} {h}", None)
        overlap = any(a[2] != b[2] and a[0] < b[1] and b[0] < a[1] for i, a in enumerate(spans) for b in spans[i + 1 :])
        return sched.steps, (bool(sched.switches) and overlap) or bool(died)


def run_scenario(case: dict[str, Any], ctx: Ctx) -> None:
    scen = {k: case.get(k) for k in ("layout", "tz", "trials", "max_retry", "inherit", "workers")}

    def one(preempt: dict[int, int], death_at: int | None = None) -> int:
        try:
            steps, nt = execute(case, preempt, ctx.tmpdir(), ctx, death_at)
        except Violation as v:
            v.case = dict(case, schedule=[[k, c] for k, c in sorted(preempt.items())], death_at=death_at)
            raise
        ctx.case(fp=[scen, sorted(preempt.items()), death_at], nontrivial=nt, classes=[case["layout"], f"preemptions{len(preempt)}", "death" if death_at is not None else "no-death"], sample=dict(scen, schedule=[[k, c] for k, c in sorted(preempt.items())], death_at=death_at) if nt else None)
        return steps

    if "schedule" in case:
        one({int(k): int(c) for k, c in case["schedule"]}, case.get("death_at"))
        return
    n = one({})
    limit = 60 if ctx.tier == "quick" else 100000
    pts = conc.switch_points(n, len(case["workers"]), limit, case["salt"])
    if ctx.tier == "quick":
        # every preemption next to an SQL statement / commit, then the thinner stride over all lines
        sqlp = conc.sql_switch_points(n, len(case["workers"]), 40, case["salt"])
        pts = sqlp + [p for p in pts if p not in sqlp][:15]
        ctx.event("sql_boundary_preemptions", len(sqlp))
    import time as _time

    t_end = _time.monotonic() + (50.0 if ctx.tier == "quick" else 1e9)
    done = 0
    for sched_ in case["multi"]:
        one({min(int(f * n), n - 1): c for f, c in sched_})
    for p in pts:
        if _time.monotonic() > t_end:
            ctx.event("schedules_not_run_time_cap", len(pts) - done)
            break
        one(p)
        done += 1
    if case["death"] is not None:
        # death points of the victim: all of its yield points (quick: a stride)
        per = max(1, n // len(case["workers"]))
        pts = range(0, per, max(1, per // (20 if ctx.tier == "quick" else 100000) or 1))
        for k in pts:
            if _time.monotonic() > t_end + 25.0:
                ctx.event("death_points_not_run_time_cap")
                break
            one({}, death_at=k)
            one({k: 0}, death_at=k + 3)
    ctx.event("scenarios")
    ctx.event("yield_points", n)


CHECKS = [
    Check("scenario", lambda tier: case_scenario(), run_scenario, {"quick": 24, "thorough": 900}, budget_s={"quick": 170, "thorough": 3000}, shrink=False, case_timeout=1500),
]
