"""C18  TPE's numerical kernels agree with the reference distributions."""
from __future__ import annotations

import math
import os
from typing import Any

import numpy as np
from hypothesis import strategies as st

from core.runner import Check, Ctx, Violation

ID = "C18"
LEVEL = "exploration"
RULE = (
    "Hypothesis generates (a<b) with |a|,|b|<=100 and widths 1e-8..200 concentrated around the "
    "implementation's branch points (-20, 6, +-1/sqrt2, 0, a~b), q in [0,1] incl. 0, 1 and "
    "values within 1e-12 of them, x inside/on/outside the interval, loc and scale over 12 "
    "decades, batched shapes, and mixtures of product distributions with continuous, discrete "
    "and categorical components. Oracle: mpmath at 60 digits (adjudicator) and SciPy "
    "(scipy.stats.truncnorm, scipy.special.erf/log_ndtr): a case is a violation when optuna "
    "differs from the high-precision value by more than the stated tolerance (and, where SciPy "
    "is itself accurate, from SciPy). Tolerances: erf 1e-15 abs+rel; log-mass / logpdf 1e-9 "
    "in the comfortable regime and 2e-5 in the far-tail or narrow regime; quantiles judged in "
    "probability space (|F(ppf(q)) - q| <= 1e-9) and a<=ppf<=b exactly. Non-trivial = outside "
    "the comfortable regime: |a| or |b| > 6, width < 1e-3, or within 1e-6 of a branch point; "
    "distinct = distinct argument tuple."
)
ASSUMPTIONS = [
    "valid arguments only: a < b, scale > 0, 0 <= q <= 1, finite values",
    "mpmath (60 digits) and SciPy are trusted as references",
    "tolerances were calibrated on the unchanged tree (see evidence extra.max_err_*), with a safety factor >= 10",
]

SQ = 1 / math.sqrt(2)
BRANCH = [-20.0, 6.0, -6.0, SQ, -SQ, 0.0, 20.0]


def _mp():
    import mpmath

    mpmath.mp.dps = 60
    return mpmath


def mp_mass(a: float, b: float) -> Any:
    mp = _mp()
    A, B = mp.mpf(a), mp.mpf(b)
    if b <= 0:
        return (mp.erfc(-B / mp.sqrt(2)) - mp.erfc(-A / mp.sqrt(2))) / 2
    if a >= 0:
        return (mp.erfc(A / mp.sqrt(2)) - mp.erfc(B / mp.sqrt(2))) / 2
    return 1 - mp.erfc(-A / mp.sqrt(2)) / 2 - mp.erfc(B / mp.sqrt(2)) / 2


# ------------------------------------------------------------------------------------------
# generators
# ------------------------------------------------------------------------------------------


def near(points: list[float], spread: float = 1e-5) -> st.SearchStrategy[float]:
    return st.tuples(st.sampled_from(points), st.floats(-spread, spread)).map(lambda t: t[0] + t[1])


endpoint = st.one_of(
    st.floats(-100, 100),
    st.floats(-8, 8),
    st.floats(-1.5, 1.5),
    near(BRANCH, 1e-5),
    near(BRANCH, 1e-9),
    st.sampled_from(BRANCH),
    st.floats(-40, -5),
    st.floats(5, 40),
)
width = st.one_of(
    st.floats(1e-8, 1e-3),
    st.floats(1e-3, 1.0),
    st.floats(1.0, 200.0),
    st.integers(-8, 2).map(lambda e: 10.0**e),
)


@st.composite
def interval(draw: Any) -> tuple[float, float]:
    mode = draw(st.integers(0, 3))
    if mode == 0:
        x, y = draw(endpoint), draw(endpoint)
        a, b = min(x, y), max(x, y)
    elif mode == 1:
        a = draw(endpoint)
        b = a + draw(width)
    elif mode == 2:
        b = draw(endpoint)
        a = b - draw(width)
    else:  # the TPE shape: a <= 0 <= b
        a = -abs(draw(endpoint))
        b = abs(draw(endpoint))
    a, b = max(a, -100.0), min(b, 100.0)
    if not (b - a >= 1e-8):
        a, b = -1.0, 1.0
    return a, b


quantile = st.one_of(
    st.floats(0, 1),
    st.sampled_from([0.0, 1.0, 0.5, 1e-12, 1 - 1e-12, 1e-300, 1e-16, 1 - 1e-16, 0.25]),
    st.floats(0, 1e-9),
    st.floats(1 - 1e-9, 1),
)
scale_s = st.one_of(st.integers(-6, 6).map(lambda e: 10.0**e), st.floats(1e-6, 1e6))
loc_s = st.one_of(st.just(0.0), st.floats(-1e3, 1e3), st.floats(-1, 1))


@st.composite
def case_kernel(draw: Any) -> dict[str, Any]:
    a, b = draw(interval())
    qs = draw(st.lists(quantile, min_size=1, max_size=4))
    fr = draw(st.lists(st.one_of(st.floats(0, 1), st.sampled_from([0.0, 1.0]), st.floats(-0.5, 1.5)), min_size=1, max_size=4))
    return {"a": a, "b": b, "q": qs, "xfrac": fr, "loc": draw(loc_s), "scale": draw(scale_s)}


def _nontrivial(a: float, b: float) -> bool:
    return (
        abs(a) > 6
        or abs(b) > 6
        or b - a < 1e-3
        or any(abs(a - p) < 1e-6 or abs(b - p) < 1e-6 for p in BRANCH)
    )


def _regime(a: float, b: float) -> str:
    if b - a < 1e-3 or (a > 6 or b < -6) or abs(a) > 30 or abs(b) > 30:
        return "hard"
    return "comfortable"


TOL_LOGMASS = {"comfortable": 1e-9, "hard": 2e-5}


def _track(ctx: Ctx, key: str, err: float) -> None:
    if ctx.frozen:
        return
    d = ctx.extra.setdefault("max_err", {})
    # merged by max in the parent via the 'max:' prefix convention
    k = "max:" + key
    if err > d.get(k, 0.0):
        d[k] = err


def run_kernel(case: dict[str, Any], ctx: Ctx) -> None:
    from optuna.samplers._tpe import _truncnorm as T
    import scipy.special as sp
    import scipy.stats as ss

    mp = _mp()
    a, b, loc, scale = case["a"], case["b"], case["loc"], case["scale"]
    reg = _regime(a, b)
    ctx.case(fp=case, nontrivial=_nontrivial(a, b), classes=[reg, "left" if b <= 0 else "right" if a > 0 else "central"], sample=case)
    with np.errstate(all="ignore"):
        lm = float(T._log_gauss_mass(np.array([a]), np.array([b]))[0])
    true_mass = mp_mass(a, b)
    true_lm = float(mp.log(true_mass))
    if math.isnan(lm):
        raise Violation("log-mass-nan", f"a={a!r} b={b!r}", case)
    err = abs(lm - true_lm)
    _track(ctx, "logmass_" + reg, err)
    if err > TOL_LOGMASS[reg] * max(1.0, abs(true_lm) * 1e-3):
        with np.errstate(all="ignore"):
            sc = float(ss.truncnorm._log_gauss_mass(np.array([a]), np.array([b]))[0]) if hasattr(ss.truncnorm, "_log_gauss_mass") else float("nan")
        raise Violation("log-mass-differs", f"a={a!r} b={b!r}: optuna {lm!r} mp {true_lm!r} scipy {sc!r} (err {err:.3g}, regime {reg})", case)

    # quantiles: inside the interval, and F(ppf(q)) == q in probability space
    q = np.array(case["q"], dtype=float)
    with np.errstate(all="ignore"):
        x = T.ppf(q, a, b)
    for qi, xi in zip(q, x):
        xi = float(xi)
        if math.isnan(xi):
            raise Violation("ppf-nan", f"q={qi!r} a={a!r} b={b!r}", case)
        if not (a <= xi <= b):
            raise Violation("ppf-outside-interval", f"q={qi!r} a={a!r} b={b!r}: {xi!r}", case)
        if qi == 0.0 and xi != a or qi == 1.0 and xi != b:
            raise Violation("ppf-endpoint", f"q={qi!r} a={a!r} b={b!r}: {xi!r}", case)
        qq = float(mp_mass(a, xi) / true_mass) if xi > a else 0.0
        e = abs(qq - float(qi))
        _track(ctx, "ppf_q_" + reg, e)
        if e > (1e-9 if reg == "comfortable" else 2e-5):
            with np.errstate(all="ignore"):
                sx = float(ss.truncnorm.ppf(qi, a, b))
            raise Violation("ppf-differs", f"q={qi!r} a={a!r} b={b!r}: optuna {xi!r} (F={qq!r}) scipy {sx!r}", case)

    # logpdf at points inside / on / outside
    for f in case["xfrac"]:
        z = a + f * (b - a)
        if f == 1.0:
            z = b
        xx = z * scale + loc
        with np.errstate(all="ignore"):
            got = float(T.logpdf(np.array([xx]), a, b, loc=loc, scale=scale)[0])
        zz = (xx - loc) / scale  # what the kernel sees after its own standardisation
        if zz < a or zz > b:
            if got != -math.inf:
                raise Violation("logpdf-outside-not-neginf", f"x={xx!r} (z={zz!r}) a={a!r} b={b!r} loc={loc!r} scale={scale!r}: {got!r}", case)
            continue
        exp = float(-mp.mpf(zz) ** 2 / 2 - mp.log(mp.sqrt(2 * mp.pi)) - mp.log(true_mass) - mp.log(mp.mpf(scale)))
        if math.isnan(got):
            raise Violation("logpdf-nan", f"x={xx!r} a={a!r} b={b!r} loc={loc!r} scale={scale!r}", case)
        e = abs(got - exp)
        _track(ctx, "logpdf_" + reg, e)
        if e > TOL_LOGMASS[reg] * max(1.0, abs(exp) * 1e-3) + 1e-12 * abs(exp):
            with np.errstate(all="ignore"):
                sc = float(ss.truncnorm.logpdf(xx, a, b, loc=loc, scale=scale))
            raise Violation("logpdf-differs", f"x={xx!r} a={a!r} b={b!r} loc={loc!r} scale={scale!r}: optuna {got!r} mp {exp!r} scipy {sc!r}", case)


# ---- erf / log_ndtr ---------------------------------------------------------------------


erf_arg = st.one_of(
    st.floats(-30, 30),
    st.floats(-1, 1),
    st.floats(-1e-6, 1e-6),
    near([0.84375, 1.25, 1 / 0.35, 6.0, -0.84375, -1.25, -6.0, 2.857142857142857], 1e-6),
    st.floats(allow_nan=False, allow_infinity=True),
    st.sampled_from([0.0, -0.0, math.inf, -math.inf, 2**-28, 2**-1000, 5e-324]),
)


@st.composite
def case_erf(draw: Any) -> dict[str, Any]:
    shape = draw(st.sampled_from([(1,), (3,), (2, 2), ()]))
    n = int(np.prod(shape)) if shape else 1
    return {"x": draw(st.lists(erf_arg, min_size=n, max_size=n)), "shape": list(shape), "t": draw(st.lists(st.one_of(st.floats(-100, 20), near([-20.0, 6.0], 1e-6)), min_size=1, max_size=3))}


def run_erf(case: dict[str, Any], ctx: Ctx) -> None:
    from optuna.samplers._tpe import _truncnorm as T
    from optuna.samplers._tpe._erf import erf
    import scipy.special as sp

    mp = _mp()
    xs = case["x"]
    ctx.case(fp=case, nontrivial=any(abs(v) > 6 or abs(v) < 1e-6 for v in xs) or any(t < -6 for t in case["t"]), classes=["shape%d" % len(case["shape"])], sample=case)
    arr = np.array(xs, dtype=float).reshape(case["shape"])
    with np.errstate(all="ignore"):
        got = np.asarray(erf(arr))
    if got.shape != arr.shape:
        raise Violation("erf-shape", f"{arr.shape} -> {got.shape}", case)
    for v, g in zip(arr.reshape(-1), got.reshape(-1)):
        e = math.erf(v)
        err = abs(float(g) - e)
        _track(ctx, "erf", err / max(abs(e), 1e-300) if e else err)
        if math.isnan(g) or err > 1e-15 + 4e-16 * abs(e):
            raise Violation("erf-differs", f"erf({float(v)!r}) = {float(g)!r}, math.erf {e!r}, scipy {float(sp.erf(v))!r}", case)
    for t in case["t"]:
        g = T._log_ndtr_single(t)
        tr = float(mp.log(mp.ncdf(mp.mpf(t))))
        err = abs(g - tr)
        rel = err / max(1.0, abs(tr))
        _track(ctx, "log_ndtr_rel", rel)
        if math.isnan(g) or rel > 1e-9:
            raise Violation("log_ndtr-differs", f"log_ndtr({t!r}) = {g!r}, mp {tr!r}, scipy {float(sp.log_ndtr(t))!r}", case)


# ---- mixtures -----------------------------------------------------------------------------


@st.composite
def case_mixture(draw: Any) -> dict[str, Any]:
    k = draw(st.integers(1, 4))  # kernels
    w = draw(st.lists(st.floats(0.05, 1.0), min_size=k, max_size=k))
    comps = []
    for _ in range(draw(st.integers(1, 3))):
        kind = draw(st.sampled_from(["cont", "disc", "cat"]))
        if kind == "cat":
            nc = draw(st.integers(1, 4))
            ws = draw(st.lists(st.lists(st.floats(0.01, 1.0), min_size=nc, max_size=nc), min_size=k, max_size=k))
            comps.append({"kind": "cat", "w": ws})
            continue
        low = draw(st.one_of(st.floats(-100, 100), st.just(0.0)))
        span = draw(st.one_of(st.floats(1e-3, 100), st.integers(1, 20).map(float)))
        if kind == "disc":
            nsteps = draw(st.integers(0, 12))
            step = span / max(nsteps, 1) if nsteps else draw(st.floats(0.1, 2.0))
            high = low + nsteps * step
        else:
            step = None
            high = low + span
        mus = draw(st.lists(st.floats(0, 1), min_size=k, max_size=k))
        mus = [low + m * (high - low) for m in mus]
        # as the Parzen estimator builds them: sigma in [range/100, range] (magic clip) or tiny
        rng_ = (high - low) + (step or 0.0)
        sig = draw(st.lists(st.one_of(st.floats(0.01, 1.0), st.floats(0.01, 0.02), st.floats(1e-3, 1.0)), min_size=k, max_size=k))
        sig = [s * rng_ for s in sig]
        comps.append({"kind": kind, "low": low, "high": high, "step": step, "mu": mus, "sigma": sig})
    # probe points anywhere in the support (far from every kernel centre included): one
    # position in [0, 1] per component and probe
    probes = draw(
        st.lists(
            st.lists(st.one_of(st.floats(0, 1), st.sampled_from([0.0, 1.0, 0.5])), min_size=len(comps), max_size=len(comps)),
            min_size=0,
            max_size=4,
        )
    )
    return {"weights": w, "comps": comps, "seed": draw(st.integers(0, 2**31 - 1)), "n": draw(st.integers(1, 8)), "probes": probes}


def _build(case: dict[str, Any]) -> Any:
    from optuna.samplers._tpe import probability_distributions as P

    w = np.array(case["weights"], dtype=float)
    w = w / w.sum()
    ds = []
    for c in case["comps"]:
        if c["kind"] == "cat":
            cw = np.array(c["w"], dtype=float)
            cw = cw / cw.sum(axis=1, keepdims=True)
            ds.append(P._BatchedCategoricalDistributions(cw))
        elif c["kind"] == "cont":
            ds.append(P._BatchedTruncNormDistributions(np.array(c["mu"]), np.array(c["sigma"]), c["low"], c["high"]))
        else:
            ds.append(P._BatchedDiscreteTruncNormDistributions(np.array(c["mu"]), np.array(c["sigma"]), c["low"], c["high"], c["step"]))
    return P._MixtureOfProductDistribution(weights=w, distributions=ds), w


def run_mixture(case: dict[str, Any], ctx: Ctx) -> None:
    import scipy.stats as ss
    from scipy.special import logsumexp

    mix, w = _build(case)
    kinds = sorted({c["kind"] for c in case["comps"]})
    ctx.case(fp=case, nontrivial=len(case["weights"]) > 1 or len(kinds) > 1 or "disc" in kinds, classes=kinds + [f"k{len(w)}"], sample=case)
    rng = np.random.RandomState(case["seed"])
    with np.errstate(all="ignore"):
        s = mix.sample(rng, case["n"])
    if s.shape != (case["n"], len(case["comps"])) or np.isnan(s).any():
        raise Violation("mixture-sample-shape-or-nan", f"{s!r}", case)
    for j, c in enumerate(case["comps"]):
        col = s[:, j]
        if c["kind"] == "cat":
            nc = len(c["w"][0])
            if not all(float(v).is_integer() and 0 <= v < nc for v in col):
                raise Violation("mixture-sample-categorical-index", f"{col!r} n_choices={nc}", case)
        elif c["kind"] == "cont":
            lo, hi = c["low"], c["high"]
            slack = 4 * max(math.ulp(lo), math.ulp(hi), max(math.ulp(m) for m in c["mu"]))
            if not all(lo - slack <= v <= hi + slack for v in col):
                raise Violation("mixture-sample-outside-interval", f"{col!r} not in [{lo!r},{hi!r}]", case)
        else:
            lo, hi, stp = c["low"], c["high"], c["step"]
            for v in col:
                kk = round((v - lo) / stp)
                if not (lo <= v <= hi) or abs(v - (lo + kk * stp)) > 4 * math.ulp(max(abs(lo), abs(hi), 1e-300)):
                    raise Violation("mixture-sample-off-grid", f"{v!r} low={lo!r} high={hi!r} step={stp!r}", case)
    # log_pdf at the samples and at the probe points vs a log-sum-exp of reference components
    rows = [list(r) for r in s]
    for pr in case.get("probes", []):
        row = []
        for f, c in zip(pr, case["comps"]):
            if c["kind"] == "cat":
                row.append(float(min(int(f * len(c["w"][0])), len(c["w"][0]) - 1)))
            elif c["kind"] == "cont":
                row.append(min(max(c["low"] + f * (c["high"] - c["low"]), c["low"]), c["high"]))
            else:
                n_ = int(round((c["high"] - c["low"]) / c["step"]))
                row.append(min(c["low"] + round(f * n_) * c["step"], c["high"]))
        rows.append(row)
    s = np.array(rows, dtype=float)
    with np.errstate(all="ignore"):
        got = mix.log_pdf(s)
    exp = np.log(w)[None, :].repeat(len(rows), axis=0)
    hard = False
    for j, c in enumerate(case["comps"]):
        col = s[:, j]
        if c["kind"] == "cat":
            cw = np.array(c["w"], dtype=float)
            cw = cw / cw.sum(axis=1, keepdims=True)
            exp = exp + np.log(cw[:, col.astype(int)]).T
        elif c["kind"] == "cont":
            mu, sg = np.array(c["mu"]), np.array(c["sigma"])
            aa, bb = (c["low"] - mu) / sg, (c["high"] - mu) / sg
            hard = hard or bool(np.any(bb - aa < 1e-3) or np.any(np.abs(aa) > 30) or np.any(np.abs(bb) > 30))
            exp = exp + ss.truncnorm.logpdf(col[:, None], aa[None, :], bb[None, :], loc=mu[None, :], scale=sg[None, :])
        else:
            mu, sg = np.array(c["mu"]), np.array(c["sigma"])
            lo, hi, stp = c["low"], c["high"], c["step"]
            xl = np.maximum(col - stp / 2, lo - stp / 2)
            xu = np.minimum(col + stp / 2, hi + stp / 2)
            num = np.empty((len(col), len(mu)))
            for i in range(len(col)):
                for kx in range(len(mu)):
                    num[i, kx] = float(_mp().log(mp_mass((xl[i] - mu[kx]) / sg[kx], (xu[i] - mu[kx]) / sg[kx])))
            den = np.array([float(_mp().log(mp_mass((lo - stp / 2 - m) / g, (hi + stp / 2 - m) / g))) for m, g in zip(mu, sg)])
            exp = exp + num - den[None, :]
    ref = logsumexp(exp, axis=1)
    if np.isnan(got).any():
        raise Violation("mixture-logpdf-nan", f"{got!r}", case)
    tol = 1e-6 if hard else 1e-8
    for gi, ri in zip(got, ref):
        if math.isinf(ri) and gi == ri:
            continue
        e = abs(gi - ri)
        _track(ctx, "mixture_logpdf", float(e))
        if e > tol * max(1.0, abs(ri)):
            raise Violation("mixture-logpdf-differs", f"optuna {gi!r} reference {ri!r}", case)
    # discrete-only mixtures: exp(log_pdf) sums to one over the whole grid
    if all(c["kind"] != "cont" for c in case["comps"]):
        axes = []
        for c in case["comps"]:
            if c["kind"] == "cat":
                axes.append([float(i) for i in range(len(c["w"][0]))])
            else:
                n = int(round((c["high"] - c["low"]) / c["step"]))
                axes.append([c["low"] + i * c["step"] for i in range(n + 1)])
        import itertools

        size = 1
        for ax in axes:
            size *= len(ax)
        if size <= 400:
            grid = np.array(list(itertools.product(*axes)), dtype=float)
            with np.errstate(all="ignore"):
                tot = float(np.exp(mix.log_pdf(grid)).sum())
            _track(ctx, "discrete_total", abs(tot - 1))
            if abs(tot - 1) > 1e-8:
                raise Violation("discrete-density-does-not-sum-to-one", f"sum={tot!r}", case)
            ctx.event("discrete_sum_checked")


# ---- normalisation of the continuous density ----------------------------------------------


@st.composite
def case_integral(draw: Any) -> dict[str, Any]:
    a, b = draw(interval())
    if b - a < 1e-6:
        b = a + 1e-6
    # loc = 0 and a power-of-two scale keep x <-> z conversions exact: with a large loc the
    # integration variable cannot resolve a narrow interval (|loc| ulp vs width) and the
    # quadrature error would be the harness's, not optuna's.  loc/scale handling itself is
    # compared with the 60-digit reference in the `kernel` sub-check.
    return {"a": a, "b": b, "loc": 0.0, "scale": 2.0 ** draw(st.integers(-10, 10))}


def run_integral(case: dict[str, Any], ctx: Ctx) -> None:
    from optuna.samplers._tpe import _truncnorm as T
    from scipy.integrate import quad

    a, b, loc, scale = case["a"], case["b"], case["loc"], case["scale"]
    ctx.case(fp=case, nontrivial=_nontrivial(a, b), classes=[_regime(a, b)], sample=case)
    lo, hi = a * scale + loc, b * scale + loc

    def f(x: float) -> float:
        with np.errstate(all="ignore"):
            return float(np.exp(T.logpdf(np.array([x]), a, b, loc=loc, scale=scale)[0]))

    # the mass concentrates near the end closest to 0: split the range there
    pts = sorted({min(max(z * scale + loc, lo), hi) for z in (a, b, 0.0, a + 1.0, b - 1.0, a + 8, b - 8, a + 0.05, b - 0.05) if True})
    tot = 0.0
    for p0, p1 in zip(pts, pts[1:]):
        if p1 > p0:
            v, _ = quad(f, p0, p1, limit=200)
            tot += v
    _track(ctx, "integral", abs(tot - 1))
    # points that round outside [a, b] after standardisation get density 0: allow that sliver
    if abs(tot - 1) > 1e-6:
        raise Violation("density-does-not-integrate-to-one", f"a={a!r} b={b!r} loc={loc!r} scale={scale!r}: integral {tot!r}", case)


CHECKS = [
    Check("kernel", lambda tier: case_kernel(), run_kernel, {"quick": 20000, "thorough": 1500000}, budget_s={"quick": 120, "thorough": 1500}),
    Check("erf", lambda tier: case_erf(), run_erf, {"quick": 8000, "thorough": 600000}, budget_s={"quick": 60, "thorough": 900}),
    Check("mixture", lambda tier: case_mixture(), run_mixture, {"quick": 3000, "thorough": 200000}, budget_s={"quick": 100, "thorough": 1500}),
    Check("integral", lambda tier: case_integral(), run_integral, {"quick": 1500, "thorough": 100000}, budget_s={"quick": 100, "thorough": 1500}),
]
