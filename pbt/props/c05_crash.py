"""C05  Acknowledged writes survive a crash and an interrupted write is all-or-nothing."""
from __future__ import annotations

import copy
import os
import signal
import threading
import warnings
from typing import Any

from hypothesis import strategies as st

from core import backends, faultfs
from core.model import ModelStorage, deep_eq
from core.runner import Check, Ctx, Enum, Violation
from core.sched import Scheduler, WorkerDied
from core.storage_ops import Backend, full_dump_check, model_outcome, op, plan

ID = "C05"
LEVEL = "fault_enumeration"
RULE = (
    "Hypothesis generates scenarios: a pre-history written by survivor S1, 1-4 storage calls of a "
    "victim V, and a continuation of 2-6 calls by S1 and by a fresh opener S2 (the C01 op "
    "generator, incl. creates, attrs, params, state changes). Journal file (both lock classes): "
    "the victim's system-call trace is recorded once, then EVERY boundary of it is a crash point "
    "(before / after lock creation, open, each write chunk, flush, fsync, rename, unlink) and the "
    "record write is additionally cut at every byte offset (records up to 200 bytes; offsets 1, "
    "middle, len-1 for longer ones); a crash while V holds the lock is followed by virtual time "
    "passing the grace period. SQLite and cached SQLite: a real forked victim process SIGKILLs "
    "itself at every SQLAlchemy begin / statement / commit event boundary; and (enumeration "
    "'sqlite_init') the very first worker of a new database file is killed at every SQL event of "
    "RDBStorage(url) (schema creation, version stamp) and of its first two writes, after which "
    "later workers open the file with the public constructor, must see exactly the acknowledged "
    "writes and work on. Oracle: with A = the "
    "victim's calls that had returned, the state seen by S1 and by S2 equals ModelStorage after A, "
    "or after A plus the interrupted call applied wholly, never anything else; then every "
    "continuation call returns what the model returns, and S1, S2 and a final fresh opener show "
    "the model's full readable state. Non-trivial = a crash point strictly inside a call; torn "
    "writes (0 < cut < len) are counted separately; distinct = distinct (scenario, crash point)."
)
ASSUMPTIONS = [
    "a crash is the death of the process (no power loss: data handed to the OS survives)",
    "the dead worker's cleanup code does not run: after the crash every system call of that worker raises again without effect",
    "SQLite's own recovery is trusted; the kill points are the SQL event boundaries seen by SQLAlchemy",
]


class _Ident:
    def __init__(self, n: Any) -> None:
        self._n = n

    def __len__(self) -> int:
        return self._n()

    def __getitem__(self, h: int) -> int:
        return h

    def __iter__(self) -> Any:
        return iter(range(self._n()))

    def __add__(self, other: Any) -> list[int]:
        return list(range(self._n())) + list(other)

    def append(self, i: int) -> None:
        pass


@st.composite
def case_journal(draw: Any) -> dict[str, Any]:
    big = st.sampled_from([300, 5000, 9000]).map(lambda n: ["study_attr", 0, "user", "big", "y" * n])
    simple = st.one_of(op(), op(), big, st.sampled_from([["create_trial", 0], ["study_attr", 0, "user", "a", 1], ["create_study", "s1", ["MINIMIZE"]]]))
    # the victim may also be the very first writer of a fresh journal file
    fresh = draw(st.integers(0, 4)) == 0
    pre = [] if fresh else [["create_study", "s0", ["MINIMIZE"]], ["create_trial", 0]] + draw(st.lists(op(), max_size=5))
    victim = draw(st.lists(simple, min_size=1, max_size=4))
    if fresh:
        victim = [["create_study", "s0", ["MINIMIZE"]]] + victim[:3]
    return {
        "lock": draw(st.sampled_from(["symlink", "open"])),
        "pre": pre,
        "victim": victim,
        "cont": draw(st.lists(st.tuples(st.integers(0, 1), simple).map(list), min_size=2, max_size=6)),
        "chunks": draw(st.one_of(st.just([]), st.lists(st.sampled_from([1, 3, 16, 64]), min_size=1, max_size=2))),
    }


class _Actor:
    """A persistent thread per simulated process (its name is the process identity)."""

    def __init__(self, name: str) -> None:
        import queue

        self.q: Any = queue.Queue()
        self.r: Any = queue.Queue()
        self.t = threading.Thread(target=self._loop, name=name, daemon=True)
        self.t.start()

    def _loop(self) -> None:
        while True:
            fn = self.q.get()
            if fn is None:
                return
            try:
                self.r.put(("ok", fn()))
            except WorkerDied:
                self.r.put(("died", None))
            except BaseException as e:  # noqa: BLE001
                self.r.put(("exc", e))

    def call(self, fn: Any) -> tuple[str, Any]:
        self.q.put(fn)
        return self.r.get()


_actors: dict[str, _Actor] = {}


def as_worker(name: str, fn: Any) -> tuple[str, Any]:
    a = _actors.get(name)
    if a is None:
        a = _actors[name] = _Actor(name)
    return a.call(fn)


def journal_once(case: dict[str, Any], crash: tuple[int, Any] | None, path: str, ctx: Ctx | None) -> dict[str, Any]:
    """One run of the scenario with the victim killed at `crash` (index relative to the victim's
    first call, mode).  Returns info about the victim's trace when crash is None."""
    import optuna
    from optuna.storages import JournalStorage
    from optuna.storages.journal import JournalFileBackend, JournalFileOpenLock, JournalFileSymlinkLock

    for p in os.listdir(os.path.dirname(path)):
        if p.startswith(os.path.basename(path)):
            os.unlink(os.path.join(os.path.dirname(path), p))
    clock = Scheduler()
    fctx = faultfs.Ctx(clock)
    fctx.max_chunks = 16
    fctx.chunks["victim"] = list(case["chunks"])
    faultfs.install(fctx)
    try:
        def mk() -> Any:
            lock = JournalFileSymlinkLock(path) if case["lock"] == "symlink" else JournalFileOpenLock(path)
            return JournalStorage(JournalFileBackend(path, lock_obj=lock))

        m = ModelStorage()

        def wrap(kind: str, s: Any, model: ModelStorage) -> Backend:
            b = Backend(kind, s)
            b.sid, b.tid = _Ident(lambda: len(model.studies)), _Ident(lambda: len(model.trials))  # type: ignore[assignment]
            return b

        s1 = as_worker("S1", mk)[1]
        b1 = wrap("S1", s1, m)
        for o in case["pre"]:
            pl = plan(m, o, None)
            if pl is None:
                continue
            exp = model_outcome(pl)
            r = as_worker("S1", lambda: b1.call(lambda: pl.bf(b1)))[1]
            if not (r[0] == exp[0] and deep_eq(r[1], exp[1])):
                raise Violation("pre-history-result-differs", f"{pl.name}: {r} vs {exp}", None)
        v = as_worker("victim", mk)[1]
        # the victim's calls, planned against the model; snapshots before each call
        mv = copy.deepcopy(m)
        bv = wrap("victim", v, mv)
        plans, snaps, exps = [], [], []
        for o in case["victim"]:
            snaps.append(copy.deepcopy(mv))
            pl = plan(mv, o, None)
            if pl is None:
                snaps.pop()
                continue
            exps.append(model_outcome(pl))
            plans.append(pl)
        snaps.append(copy.deepcopy(mv))
        base = fctx.calls.get("victim", 0)
        if crash is not None:
            fctx.crash["victim"] = (base + crash[0], crash[1])
        acked: list[Any] = []

        def victim_run() -> None:
            for pl in plans:
                acked.append(bv.call(lambda: pl.bf(bv)))

        res = as_worker("victim", victim_run)
        n_calls = fctx.calls.get("victim", 0) - base
        vtrace = [(t, d) for w, t, d in fctx.trace if w == "victim" and not t.startswith("ok:")][-n_calls:] if n_calls else []
        if crash is None:
            if res[0] != "ok":
                raise Violation("victim-failed-without-crash", f"{res}", None)
            for r, e in zip(acked, exps):
                if not (r[0] == e[0] and deep_eq(r[1], e[1])):
                    raise Violation("victim-result-differs", f"{r} vs {e}", None)
            return {"n": n_calls, "trace": vtrace}
        if res[0] == "exc":
            raise Violation("victim-raised", f"{res[1]!r}", None)
        j = len(acked)  # calls acknowledged before the crash
        for r, e in zip(acked, exps):
            if not (r[0] == e[0] and deep_eq(r[1], e[1])):
                raise Violation("victim-result-differs", f"acknowledged call {r} vs {e}", None)
        where = f"victim killed at its system call #{crash[0]} ({vtrace[crash[0]][0] if crash[0] < len(vtrace) else '?'}, {crash[1]}) during call {j} ({plans[j].name if j < len(plans) else 'none'}) after {j} acknowledged calls"
        cands = [snaps[j]] + ([snaps[j + 1]] if j < len(plans) and res[0] == "died" else [])
        if res[0] == "ok":
            cands = [snaps[len(plans)]]

        def matches(b: Backend, model: ModelStorage, label: str) -> str | None:
            b.sid, b.tid = _Ident(lambda: len(model.studies)), _Ident(lambda: len(model.trials))  # type: ignore[assignment]
            try:
                r = as_worker(b.kind, lambda: full_dump_check(model, b, None, label))
            except Violation as e:  # pragma: no cover
                return e.msg
            if r[0] == "exc":
                if isinstance(r[1], Violation):
                    return r[1].msg
                return f"{type(r[1]).__name__}: {r[1]}"
            return None

        chosen = None
        errs = []
        for ci, cand in enumerate(cands):
            e1 = matches(b1, cand, "S1 after the crash")
            if e1 is None:
                chosen = cand
                break
            errs.append(e1)
        if chosen is None:
            raise Violation("state-after-crash-neither-before-nor-after", f"{where}: survivor S1 sees neither the state after the acknowledged calls nor that plus the interrupted call: {errs[0][:500]} || {errs[-1][:500]}", None)
        s2r = as_worker("S2", mk)
        if s2r[0] != "ok":
            raise Violation("fresh-opener-fails", f"{where}: {s2r[1]!r}", None)
        b2 = wrap("S2", s2r[1], chosen)
        e2 = matches(b2, chosen, "S2 (fresh opener) after the crash")
        if e2 is not None:
            raise Violation("fresh-opener-sees-different-state", f"{where}: {e2[:600]}", None)
        # continuation
        mc = copy.deepcopy(chosen)
        b1.sid, b1.tid = _Ident(lambda: len(mc.studies)), _Ident(lambda: len(mc.trials))  # type: ignore[assignment]
        b2.sid, b2.tid = b1.sid, b1.tid
        for who, o in case["cont"]:
            b = (b1, b2)[who]
            pl = plan(mc, o, None)
            if pl is None:
                continue
            exp = model_outcome(pl)
            r = as_worker(b.kind, lambda: b.call(lambda: pl.bf(b)))
            if r[0] != "ok":
                raise Violation("survivor-call-raised", f"{where}: {b.kind} {pl.name}: {r[1]!r}", None)
            r = r[1]
            if not (r[0] == exp[0] and deep_eq(r[1], exp[1])):
                raise Violation("survivor-call-result-differs", f"{where}: then {b.kind} {pl.name} -> {str(r)[:300]}, model {exp}", None)
        s3r = as_worker("S3", mk)
        if s3r[0] != "ok":
            raise Violation("fresh-opener-fails", f"{where}: final opener {s3r[1]!r}", None)
        b3 = wrap("S3", s3r[1], mc)
        for b in (b1, b2, b3):
            e = matches(b, mc, f"{b.kind} at the end")
            if e is not None:
                raise Violation("final-state-differs", f"{where}: {b.kind}: {e[:600]}", None)
        return {"inside": res[0] == "died" and crash[0] > 0, "j": j}
    finally:
        faultfs.uninstall()


def run_journal(case: dict[str, Any], ctx: Ctx) -> None:
    warnings.simplefilter("ignore")
    import optuna

    optuna.logging.set_verbosity(optuna.logging.ERROR)
    path = os.path.join(ctx.tmpdir(), f"c05-{os.getpid()}.log")
    scen = {k: case[k] for k in ("lock", "pre", "victim", "cont", "chunks")}

    def one(crash: tuple[int, Any]) -> None:
        try:
            info = journal_once(case, crash, path, ctx)
        except Violation as v:
            v.case = dict(scen, crash=[crash[0], crash[1]])
            raise
        torn = isinstance(crash[1], int)
        ctx.case(fp=[scen, list(crash)], nontrivial=bool(info.get("inside")) or torn, classes=[case["lock"], "torn-write" if torn else f"boundary-{crash[1]}"], sample=dict(scen, crash=[crash[0], crash[1]]) if torn else None)

    if "crash" in case:
        one((case["crash"][0], case["crash"][1]))
        return
    try:
        info = journal_once(case, None, path, ctx)
    except Violation as v:
        v.case = dict(scen)
        raise
    n = info["n"]
    for k in range(n):
        one((k, "before"))
        one((k, "after"))
        tag, d = info["trace"][k]
        if tag == "write":
            pos, size, total = d
            # every byte offset of short records; for long ones the ends, the middle and the offsets
            # around file-system block sizes (absolute positions inside the record)
            if total <= 200:
                cuts: Any = range(1, size)
            else:
                marks = {1, total // 2, total - 1} | {c for c in (4095, 4096, 4097, 8191, 8192, 8193) if c < total}
                cuts = sorted(m_ - pos for m_ in marks if pos < m_ < pos + size)
            for c in cuts:
                one((k, c))
    ctx.event("scenarios")
    ctx.event("victim_syscalls", n)


# ---- SQLite: real process, SIGKILL at SQL event boundaries -----------------------------------


@st.composite
def case_sqlite(draw: Any) -> dict[str, Any]:
    simple = st.one_of(op(), st.sampled_from([["create_trial", 0], ["study_attr", 0, "user", "a", 1], ["create_study", "s1", ["MINIMIZE"]]]))
    return {
        "cached": draw(st.booleans()),
        "pre": [["create_study", "s0", ["MINIMIZE"]], ["create_trial", 0]] + draw(st.lists(op(), max_size=4)),
        "victim": draw(st.lists(simple, min_size=1, max_size=3)),
        "cont": draw(st.lists(simple, min_size=1, max_size=4)),
        "points": draw(st.lists(st.floats(0, 1), min_size=2, max_size=4)),
    }


def _shadowed(model: ModelStorage, b: Backend, pl: Any) -> bool:
    """The op targets a dead handle whose id SQLite has re-used for a live object."""
    if pl.target is None:
        return False
    k, h = pl.target
    ids = b.sid if k == "s" else b.tid
    alive = [x.alive for x in model.studies] if k == "s" else [model.trial_alive(t) for t in range(len(model.trials))]
    return h < len(ids) and h < len(alive) and not alive[h] and any(ids[j] == ids[h] and j != h and j < len(alive) and alive[j] for j in range(len(ids)))


def sqlite_once(case: dict[str, Any], kill_at: int | None, fac: Any) -> dict[str, Any]:
    import optuna

    path = fac.new_sqlite_file()
    m = ModelStorage()
    s1 = fac.open_rdb(path)
    b1 = Backend("S1", s1)
    for o in case["pre"]:
        pl = plan(m, o, None)
        if pl is None or _shadowed(m, b1, pl):
            continue
        exp = model_outcome(pl)
        r = b1.call(lambda: pl.bf(b1))
        if exp[0] == "ok" and pl.creates == "study":
            b1.sid.append(r[1])
        elif exp[0] == "ok" and pl.creates == "trial":
            b1.tid.append(r[1])
        if (r[0] == "ok") != (exp[0] == "ok"):
            raise Violation("pre-history-result-differs", f"{pl.name}: {r} vs {exp}", None)
    s1.scoped_session.remove()
    s1.engine.dispose()
    mv = copy.deepcopy(m)
    plans, snaps = [], []
    for o in case["victim"]:
        snaps.append(copy.deepcopy(mv))
        pl = plan(mv, o, None)
        if pl is None or _shadowed(mv, b1, pl) or (pl.target is not None and pl.target[1] >= len(b1.sid if pl.target[0] == "s" else b1.tid)):
            # (a victim call on an object the victim itself created is left out: its id is only
            # known inside the victim process)
            snaps.pop()
            continue
        model_outcome(pl)
        plans.append(pl)
    snaps.append(copy.deepcopy(mv))
    rfd, wfd = os.pipe()
    pid = os.fork()
    if pid == 0:  # ---- the victim process
        try:
            os.close(rfd)
            import sqlalchemy

            st_ = optuna.storages.RDBStorage(f"sqlite:///{path}", skip_compatibility_check=True, skip_table_creation=True)
            count = [0]

            def hit(*a: Any, **k: Any) -> None:
                if kill_at is not None and count[0] == kill_at:
                    os.kill(os.getpid(), signal.SIGKILL)
                count[0] += 1

            for ev in ("before_cursor_execute", "after_cursor_execute", "commit", "begin", "rollback"):
                sqlalchemy.event.listen(st_.engine, ev, hit)
            stv = optuna.storages._CachedStorage(st_) if case["cached"] else st_
            bv = Backend("victim", stv)
            bv.sid, bv.tid = list(b1.sid), list(b1.tid)
            for i, pl in enumerate(plans):
                r = bv.call(lambda: pl.bf(bv))
                if r[0] == "ok" and pl.creates == "study":
                    bv.sid.append(r[1])
                elif r[0] == "ok" and pl.creates == "trial":
                    bv.tid.append(r[1])
                os.write(wfd, f"{i}:{r[0]}:{r[1] if isinstance(r[1], (int, bool, str)) or r[1] is None else ''}\n".encode())
            os.write(wfd, f"N:{count[0]}\n".encode())
        finally:
            os._exit(0)
    os.close(wfd)
    _, status = os.waitpid(pid, 0)
    data = b""
    while True:
        chunk = os.read(rfd, 65536)
        if not chunk:
            break
        data += chunk
    os.close(rfd)
    lines = [l for l in data.decode().splitlines() if l]
    acks = [l for l in lines if not l.startswith("N:")]
    n_events = next((int(l[2:]) for l in lines if l.startswith("N:")), None)
    if kill_at is None:
        return {"n": n_events}
    killed = os.WIFSIGNALED(status)
    j = len(acks)
    where = f"victim ({'cached' if case['cached'] else 'raw'} RDB) SIGKILLed at SQL event #{kill_at} during call {j} ({plans[j].name if j < len(plans) else 'none'}) after {j} acknowledged calls"
    cands = [snaps[j]] + ([snaps[j + 1]] if j < len(plans) else [])
    if not killed:
        cands = [snaps[len(plans)]]
    # a fresh opener must read the database: either candidate, fully
    s2 = fac.open_rdb(path)
    chosen = None
    errs = []
    for cand in cands:
        b2 = Backend("S2", s2)
        # ids: as acknowledged; an unacknowledged create may have allocated one more id
        b2.sid, b2.tid = list(b1.sid), list(b1.tid)
        try:
            for i, a in enumerate(acks):
                parts = a.split(":")
                if parts[1] == "ok" and plans[i].creates == "study":
                    b2.sid.append(int(parts[2]))
                elif parts[1] == "ok" and plans[i].creates == "trial":
                    b2.tid.append(int(parts[2]))
            while len(b2.sid) < len(cand.studies):
                b2.sid.append(max([x._study_id for x in s2.get_all_studies()] + [0]))
            while len(b2.tid) < len(cand.trials):
                alive = [t for fs in s2.get_all_studies() for t in s2.get_all_trials(fs._study_id, deepcopy=False)]
                b2.tid.append(max([t._trial_id for t in alive] + [0]))
            full_dump_check(cand, b2, None, "fresh opener after the kill")
            chosen = (cand, b2)
            break
        except Violation as e:
            errs.append(e.msg)
        except Exception as e:  # noqa: BLE001
            errs.append(f"{type(e).__name__}: {e}")
    if chosen is None:
        raise Violation("state-after-crash-neither-before-nor-after", f"{where}: {errs[0][:500]} || {errs[-1][:500]}", None)
    mc, b2 = copy.deepcopy(chosen[0]), chosen[1]
    for o in case["cont"]:
        pl = plan(mc, o, None)
        if pl is None or _shadowed(mc, b2, pl):
            continue
        exp = model_outcome(pl)
        r = b2.call(lambda: pl.bf(b2))
        if r[0] == "ok" and exp[0] == "ok" and pl.creates == "study":
            b2.sid.append(r[1])
        elif r[0] == "ok" and exp[0] == "ok" and pl.creates == "trial":
            b2.tid.append(r[1])
        if (r[0] == "ok") != (exp[0] == "ok") or (exp[0] == "exc" and r[1] != exp[1]):
            raise Violation("survivor-call-result-differs", f"{where}: then {pl.name} -> {str(r)[:300]}, model {exp}", None)
    s3 = fac.open_rdb(path)
    b3 = Backend("S3", s3)
    b3.sid, b3.tid = b2.sid, b2.tid
    full_dump_check(mc, b3, None, "final fresh opener")
    return {"killed": killed, "j": j}


def run_sqlite(case: dict[str, Any], ctx: Ctx) -> None:
    warnings.simplefilter("ignore")
    import optuna

    optuna.logging.set_verbosity(optuna.logging.ERROR)
    fac = backends.factory(ctx.tmpdir())
    scen = {k: case[k] for k in ("cached", "pre", "victim", "cont")}
    try:
        def one(k: int) -> None:
            try:
                info = sqlite_once(case, k, fac)
            except Violation as v:
                v.case = dict(scen, kill_at=k)
                raise
            finally:
                fac.release()
            ctx.case(fp=[scen, k], nontrivial=bool(info.get("killed")), classes=["sqlite-cached" if case["cached"] else "sqlite-raw", "killed" if info.get("killed") else "ran-to-end"], sample=dict(scen, kill_at=k))

        if "kill_at" in case:
            one(case["kill_at"])
            return
        n = sqlite_once(case, None, fac)["n"]
        fac.release()
        if not n:
            return
        ks = range(n) if ctx.tier == "thorough" else sorted({min(int(f * n), n - 1) for f in case["points"]} | {0, n - 1})
        for k in ks:
            one(k)
        ctx.event("sqlite_scenarios")
        ctx.event("sql_events", n)
    finally:
        fac.release()


# ------------------------------------------------------------------------------------------
# SQLite set-up: the very first worker dies while it creates the schema / stamps the version
# ------------------------------------------------------------------------------------------


def sqlite_init_once(kill_at: int | None, tmpdir: str, cached: bool) -> dict[str, Any]:
    """A forked victim opens a database file that does not exist yet with the public constructor
    (tables + alembic stamp), creates a study and a trial, and SIGKILLs itself at SQL event
    #kill_at.  Then a survivor opens the file with the same constructor, must see every
    acknowledged write and nothing half-made, and works on; a final fresh opener sees it all."""
    import optuna
    from optuna.study import StudyDirection

    path = os.path.join(tmpdir, f"init-{os.getpid()}-{kill_at}.db")
    for suf in ("", "-journal", "-wal", "-shm"):
        if os.path.exists(path + suf):
            os.unlink(path + suf)
    url = f"sqlite:///{path}"
    rfd, wfd = os.pipe()
    pid = os.fork()
    if pid == 0:
        try:
            os.close(rfd)
            import sqlalchemy

            count = [0]

            def hit(*a: Any, **k: Any) -> None:
                if kill_at is not None and count[0] == kill_at:
                    os.kill(os.getpid(), signal.SIGKILL)
                count[0] += 1

            for ev in ("before_cursor_execute", "after_cursor_execute", "commit", "begin", "rollback"):
                sqlalchemy.event.listen(sqlalchemy.engine.Engine, ev, hit)
            sv = optuna.storages.RDBStorage(url)
            os.write(wfd, f"opened:{count[0]}\n".encode())
            sid = sv.create_new_study([StudyDirection.MINIMIZE], "by-victim")
            os.write(wfd, f"study:{sid}\n".encode())
            tid = sv.create_new_trial(sid)
            os.write(wfd, f"trial:{tid}\n".encode())
            os.write(wfd, f"N:{count[0]}\n".encode())
        finally:
            os._exit(0)
    os.close(wfd)
    _, status = os.waitpid(pid, 0)
    data = b""
    while True:
        chunk = os.read(rfd, 65536)
        if not chunk:
            break
        data += chunk
    os.close(rfd)
    lines = dict(l.split(":", 1) for l in data.decode().splitlines() if l)
    if kill_at is None:
        return {"n": int(lines["N"]), "n_open": int(lines["opened"])}
    killed = os.WIFSIGNALED(status)
    where = f"first worker of a new SQLite file SIGKILLed at SQL event #{kill_at} ({'inside RDBStorage(url)' if 'opened' not in lines else 'after the constructor returned'}; acknowledged: {sorted(lines)})"
    opened = []
    try:
        def open_() -> Any:
            st_ = optuna.storages.RDBStorage(url)
            opened.append(st_)
            return optuna.storages._CachedStorage(st_) if cached else st_

        try:
            s2 = open_()
            studies = {x.study_name: x._study_id for x in s2.get_all_studies()}
        except BaseException as e:  # noqa: BLE001
            raise Violation("database-unusable-after-crash-during-set-up", f"{where}: a later worker's RDBStorage(url) / first read raised {type(e).__name__}: {str(e)[:300]}", None)
        if "study" in lines and studies.get("by-victim") != int(lines["study"]):
            raise Violation("acknowledged-write-lost", f"{where}: create_new_study had returned {lines['study']}, a later worker sees studies {studies}", None)
        if set(studies) - {"by-victim"}:
            raise Violation("state-after-crash-neither-before-nor-after", f"{where}: studies {studies}", None)
        if "by-victim" in studies:
            ts = s2.get_all_trials(studies["by-victim"])
            if "trial" in lines and [t._trial_id for t in ts] != [int(lines["trial"])]:
                raise Violation("acknowledged-write-lost", f"{where}: create_new_trial had returned {lines['trial']}, a later worker sees {[t._trial_id for t in ts]}", None)
            if len(ts) > 1 or any(t.number != 0 or t.state.name != "RUNNING" for t in ts):
                raise Violation("state-after-crash-neither-before-nor-after", f"{where}: trials {ts}", None)
        try:
            sid = s2.create_new_study([StudyDirection.MAXIMIZE], "by-survivor")
            tid = s2.create_new_trial(sid)
            s2.set_trial_user_attr(tid, "k", [1, "x"])
            s2.set_trial_state_values(tid, optuna.trial.TrialState.COMPLETE, [0.5])
            s3 = open_()
            t = s3.get_trial(tid)
            names = sorted(x.study_name for x in s3.get_all_studies())
        except BaseException as e:  # noqa: BLE001
            raise Violation("survivor-call-result-differs", f"{where}: the survivors' calls raised {type(e).__name__}: {str(e)[:300]}", None)
        if t.state.name != "COMPLETE" or t.values != [0.5] or t.user_attrs != {"k": [1, "x"]} or t.number != 0 or names != sorted(set(studies) | {"by-survivor"}):
            raise Violation("survivor-call-result-differs", f"{where}: final fresh opener sees trial {t}, studies {names}", None)
    finally:
        for st_ in opened:
            try:
                st_.scoped_session.remove()
                st_.engine.dispose()
            except Exception:  # noqa: BLE001
                pass
        for suf in ("", "-journal", "-wal", "-shm"):
            if os.path.exists(path + suf):
                os.unlink(path + suf)
    return {"killed": killed, "inside_constructor": "opened" not in lines}


def run_sqlite_init(case: dict[str, Any], ctx: Ctx) -> None:
    import optuna

    warnings.simplefilter("ignore")
    optuna.logging.set_verbosity(optuna.logging.ERROR)
    try:
        info = sqlite_init_once(case["kill_at"], ctx.tmpdir(), case["cached"])
    except Violation as v:
        v.case = dict(case)
        raise
    ctx.case(fp=["sqlite_init", case], nontrivial=bool(info.get("killed")), classes=["killed-inside-constructor" if info.get("inside_constructor") else "killed-after-constructor" if info.get("killed") else "ran-to-end"], sample=case)


def enum_sqlite_init(ctx: Ctx, tier: str, shard: int, nshards: int) -> None:
    import optuna

    warnings.simplefilter("ignore")
    optuna.logging.set_verbosity(optuna.logging.ERROR)
    n = sqlite_init_once(None, ctx.tmpdir(), False)["n"]
    jobs = [(k, c) for k in range(n) for c in (False, True)]
    for i, (k, c) in enumerate(jobs):
        if i % nshards == shard:
            run_sqlite_init({"kill_at": k, "cached": c}, ctx)
    ctx.event("sql_events_of_set_up_and_first_writes", n if shard == 0 else 0)
    ctx.exhaustive_parts.append("SQLite set-up: every SQL event boundary of the first worker's RDBStorage(url) + create_new_study + create_new_trial on a new file is a kill point (raw and cached later openers)")


CHECKS = [
    Check("journal", lambda tier: case_journal(), run_journal, {"quick": 16, "thorough": 640}, budget_s={"quick": 150, "thorough": 2400}, shrink=False, case_timeout=900),
    Check("sqlite_kill", lambda tier: case_sqlite(), run_sqlite, {"quick": 96, "thorough": 960}, budget_s={"quick": 120, "thorough": 2400}, shrink=False, case_timeout=900),
]
ENUMS = [Enum("sqlite_init", enum_sqlite_init)]
REPLAY = {"sqlite_init": run_sqlite_init}
