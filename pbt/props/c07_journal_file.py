"""C07  The journal file is an intact, totally ordered log under concurrent writers."""
from __future__ import annotations

import os
import warnings
from typing import Any

from hypothesis import strategies as st

from core import faultfs
from core.runner import Check, Ctx, Violation
from core.sched import Deadlock, Inconclusive, Scheduler

ID = "C07"
LEVEL = "exploration"
RULE = (
    "Hypothesis generates scenarios: 2-3 JournalFileBackend objects on one file, each with its "
    "own lock object (symlink lock or O_EXCL lock), each running 1-3 calls append_logs([1-3 "
    "records of 20 B - 3 KB]) / read_logs(k) with k = 0, a position the worker has already "
    "reached, or a position beyond the end; writes are delivered in generated chunk sizes; in half "
    "of the scenarios the journal file was last modified an hour ago. The "
    "harness owns the interleaving: every system call of _file.py (symlink/open(O_EXCL)/stat/"
    "rename/unlink, open, each write chunk, flush, fsync, each readline, seek, sleep on a virtual "
    "clock) is a yield point of a deterministic scheduler. For every scenario ALL "
    "single-preemption schedules (every yield point x every other worker) are enumerated and "
    "generated two- and three-preemption schedules are added. Oracle from the system-call "
    "trace and the return values: chunks of different append_logs calls never interleave; at "
    "most one worker is between a successful lock creation and its release; every read_logs(k) "
    "returns exactly records k..m of the global append order with m covering every append that "
    "finished before the read began, each element equal to an appended dict; no call raises; "
    "afterwards a fresh backend reads all records in append order and every worker's "
    "read_logs(k) for every k agrees with it (offset caches consistent). Non-trivial = a "
    "schedule with a context switch inside a call while another worker's call is in progress; "
    "distinct = distinct (scenario, schedule)."
)
ASSUMPTIONS = [
    "'processes' are separate backend objects (own offset cache, own lock object) sharing one file; the only shared state of real processes is the file system, whose operations are the yield points",
    "asynchronous exceptions (signals) are not generated",
    "sleeping runs on a virtual clock that advances only when no worker is runnable, so the 30 s stale-lock takeover cannot fire against a live holder merely because the scheduler parked it",
]


@st.composite
def case_scenario(draw: Any) -> dict[str, Any]:
    nw = draw(st.integers(2, 3))
    workers = []
    for w in range(nw):
        calls = []
        for c in range(draw(st.integers(1, 3))):
            if draw(st.integers(0, 2)) > 0 or (w == 0 and c == 0):
                calls.append({"op": "append", "sizes": draw(st.lists(st.sampled_from([0, 0, 5, 40, 300, 3000]), min_size=1, max_size=3))})
            else:
                calls.append({"op": "read", "from": draw(st.sampled_from(["zero", "reached", "reached", "beyond", "beyond1"]))})
        workers.append({"calls": calls, "chunks": draw(st.one_of(st.just([]), st.lists(st.sampled_from([1, 2, 7, 16, 64, 1000]), min_size=1, max_size=3)))})
    return {
        "lock": draw(st.sampled_from(["symlink", "open"])),
        # the journal file was last written an hour ago (a study resumed after a pause): file
        # ages, which the stale-lock logic looks at, are then far beyond the grace period
        "aged": draw(st.booleans()),
        "workers": workers,
        "multi": draw(st.lists(st.lists(st.tuples(st.floats(0, 1), st.integers(0, 1)).map(list), min_size=2, max_size=3), max_size=6)),
    }


def execute(case: dict[str, Any], preempt: dict[int, int], path: str, ctx: Ctx | None) -> tuple[int, bool]:
    """Runs one schedule.  Returns (number of yield points, non-trivial?)."""
    from optuna.storages.journal import JournalFileBackend, JournalFileOpenLock, JournalFileSymlinkLock

    for p in (path, path + ".lock"):
        if os.path.lexists(p):
            os.unlink(p)
    sched = Scheduler(preempt=preempt)
    fctx = faultfs.Ctx(sched)
    faultfs.install(fctx)
    try:
        names = [f"w{i}" for i in range(len(case["workers"]))]
        backs = {}
        for n, w in zip(names, case["workers"]):
            lock = JournalFileSymlinkLock(path) if case["lock"] == "symlink" else JournalFileOpenLock(path)
            backs[n] = JournalFileBackend(path, lock_obj=lock)
            fctx.chunks[n] = list(w["chunks"])
        if case.get("aged"):
            import time as _t

            old_t = _t.time() - 3600.0
            os.utime(path, (old_t, old_t))
        log: dict[str, list[Any]] = {n: [] for n in names}  # per call: (op, arg, start, end, result)
        appended: dict[str, list[dict[str, Any]]] = {}

        def script(n: str, w: dict[str, Any]) -> Any:
            def run() -> None:
                reached = 0
                for ci, c in enumerate(w["calls"]):
                    start = len(fctx.trace)
                    if c["op"] == "append":
                        recs = [{"w": n, "c": ci, "i": j, "pad": "x" * sz} for j, sz in enumerate(c["sizes"])]
                        appended[f"{n}.{ci}"] = recs
                        try:
                            backs[n].append_logs(recs)
                            res: Any = ("ok", None)
                        except Exception as e:  # noqa: BLE001
                            res = ("exc", repr(e))
                        log[n].append(("append", f"{n}.{ci}", start, len(fctx.trace), res))
                    else:
                        k = {"zero": 0, "reached": reached, "beyond": reached + 3, "beyond1": reached + 1}[c["from"]]
                        try:
                            out = backs[n].read_logs(k)
                            res = ("ok", out)
                            reached = max(reached, k + len(out)) if out else reached
                        except Exception as e:  # noqa: BLE001
                            res = ("exc", repr(e))
                        log[n].append(("read", k, start, len(fctx.trace), res))

            return run

        try:
            results = sched.run({n: script(n, w) for n, w in zip(names, case["workers"])})
        except (Deadlock, Inconclusive) as e:
            if ctx is not None:
                ctx.event("inconclusive:" + type(e).__name__)
            return sched.steps, False
        for n, r in results.items():
            if r[0] != "ok":
                raise Violation("worker-raised", f"{n}: {r}", None)
        tr = fctx.trace
        sw = f"schedule {preempt} switches {sched.switches}"
        # (1) chunks of different append calls never interleave; global order of appends
        order: list[str] = []
        writing: tuple[str, int] | None = None  # (worker, bytes left)
        call_of: dict[str, list[str]] = {n: [k for k in appended if k.startswith(n + ".")] for n in names}
        nth_write: dict[str, int] = {n: 0 for n in names}
        for w_, tag, d in tr:
            if tag != "write":
                continue
            pos, k, total = d
            if pos == 0:
                if writing is not None and writing[1] > 0:
                    raise Violation("appends-interleave", f"{sw}: {w_} starts writing while {writing[0]} has {writing[1]} bytes left", None)
                order.append(call_of[w_][nth_write[w_]])
                nth_write[w_] += 1
                writing = (w_, total - k)
            else:
                if writing is None or writing[0] != w_:
                    raise Violation("appends-interleave", f"{sw}: chunk of {w_} at offset {pos} inside the write of {writing}", None)
                writing = (w_, writing[1] - k)
        # (2) lock exclusivity
        holder: str | None = None
        for w_, tag, d in tr:
            is_lock = isinstance(d, str) and d.endswith(".lock")
            if tag in ("ok:symlink", "ok:open") and (tag == "ok:symlink" or is_lock):
                if holder is not None:
                    raise Violation("two-lock-holders", f"{sw}: {w_} created the lock while {holder} holds it", None)
                holder = w_
            elif tag == "ok:rename" and is_lock:
                holder = None
        global_order = [r for k in order for r in appended[k]]
        # (3) every call's result
        finished_at = {}
        for n in names:
            for op, arg, s0, s1, res in log[n]:
                if op == "append":
                    finished_at[arg] = s1
        overlap = False
        for n in names:
            for op, arg, s0, s1, res in log[n]:
                if res[0] != "ok":
                    raise Violation(f"{op}_logs-raised", f"{sw}: {n} {op}_logs({arg}) raised {res[1]}", None)
                if op != "read":
                    continue
                out, k = res[1], arg
                if out != global_order[k : k + len(out)]:
                    raise Violation(
                        "read-returns-wrong-records",
                        f"{sw}: {n} read_logs({k}) -> {[(r.get('w'), r.get('c'), r.get('i')) if isinstance(r, dict) else r for r in out]}, append order {[(r['w'], r['c'], r['i']) for r in global_order]}",
                        None,
                    )
                must = 0
                for key in order:
                    if finished_at.get(key, 10**9) <= s0:
                        must = max(must, global_order.index(appended[key][-1]) + 1)
                if k + len(out) < min(must, len(global_order)) and k <= must:
                    raise Violation("read-misses-finished-append", f"{sw}: {n} read_logs({k}) returned {len(out)} records but {must} records were appended before it began", None)
                if any(w2 != n and t == "write" for w2, t, _ in tr[s0:s1]):
                    overlap = True
        faultfs.uninstall()
        # (4) final consistency, sequentially and without instrumentation
        lock = JournalFileSymlinkLock(path) if case["lock"] == "symlink" else JournalFileOpenLock(path)
        fresh = JournalFileBackend(path, lock_obj=lock)
        try:
            allrec = fresh.read_logs(0)
        except Exception as e:  # noqa: BLE001
            raise Violation("file-unreadable-afterwards", f"{sw}: fresh reader: {e!r}", None)
        if allrec != global_order:
            raise Violation("file-differs-from-append-order", f"{sw}: file has {[(r['w'], r['c'], r['i']) for r in allrec]}, appends were {[(r['w'], r['c'], r['i']) for r in global_order]}", None)
        for n in names:
            for k in range(len(allrec) + 2):
                try:
                    got = backs[n].read_logs(k)
                except Exception as e:  # noqa: BLE001
                    raise Violation("offset-cache-corrupted", f"{sw}: afterwards {n}.read_logs({k}) raised {e!r} (cache {dict(sorted(backs[n]._log_number_offset.items()))})", None)
                if got != allrec[k:]:
                    raise Violation("offset-cache-corrupted", f"{sw}: afterwards {n}.read_logs({k}) returned {len(got)} records {[(r.get('w'), r.get('c'), r.get('i')) if isinstance(r, dict) else '?' for r in got][:4]}, a fresh reader {len(allrec[k:])}", None)
        contended = sum(1 for w_, t, d in tr if t in ("os.symlink", "os.open")) > sum(1 for w_, t, d in tr if t in ("ok:symlink",)) + sum(1 for w_, t, d in tr if t == "ok:open" and isinstance(d, str) and d.endswith(".lock"))
        return sched.steps, bool(sched.switches) and (overlap or contended)
    finally:
        faultfs.uninstall()
        for p in (path, path + ".lock"):
            if os.path.lexists(p):
                os.unlink(p)


def run_scenario(case: dict[str, Any], ctx: Ctx) -> None:
    warnings.simplefilter("ignore")
    path = os.path.join(ctx.tmpdir(), f"c07-{os.getpid()}.log")
    scen = {k: case.get(k) for k in ("lock", "aged", "workers")}

    def one(preempt: dict[int, int]) -> int:
        try:
            steps, nt = execute(case, preempt, path, ctx)
        except Violation as v:
            v.case = dict(case, schedule=[[k, c] for k, c in sorted(preempt.items())])
            raise
        ctx.case(fp=[scen, sorted(preempt.items())], nontrivial=nt, classes=[case["lock"], f"preemptions{len(preempt)}", f"workers{len(case['workers'])}"], sample=dict(case, schedule=[[k, c] for k, c in sorted(preempt.items())]) if nt else None)
        return steps

    if "schedule" in case:  # replay of one schedule
        one({int(k): int(c) for k, c in case["schedule"]})
        return
    n = one({})
    nw = len(case["workers"])
    # all single-preemption schedules; for very long scenarios a stride keeps the count near 400
    # (the evidence counts how many scenarios were enumerated completely)
    stride = max(1, -(-n * (nw - 1) // 400))
    for s in range(0, n, stride):
        for c in range(nw - 1):
            one({s + (c % stride if s + c % stride < n else 0): c})
    ctx.event("scenarios_all_single_preemptions" if stride == 1 else "scenarios_strided")
    for sched_ in case["multi"]:
        pre = {}
        for frac, c in sched_:
            pre[min(int(frac * n), n - 1)] = c
        one(pre)
    ctx.event("scenarios")
    ctx.event("yield_points", n)


CHECKS = [
    Check("scenario", lambda tier: case_scenario(), run_scenario, {"quick": 128, "thorough": 4800}, budget_s={"quick": 150, "thorough": 2400}, shrink=False, case_timeout=900),
]
