"""C02  Every trial run by optimize/ask/tell ends in a well-formed terminal state."""
from __future__ import annotations

import collections.abc
import decimal
import fractions
import math
import pickle
import threading
import warnings
from typing import Any

from hypothesis import strategies as st

from core import backends
from core.model import deep_eq
from core.runner import Check, Ctx, Violation

ID = "C02"
LEVEL = "exploration"
RULE = (
    "Hypothesis generates objective *programs*: per trial number a script (suggest calls, reports "
    "of floats incl. NaN/inf, should_prune -> TrialPruned, set_user_attr) that ends by raising "
    "(ValueError, KeyError, ZeroDivisionError, a custom Exception subclass, TrialPruned, "
    "KeyboardInterrupt) or by returning a value from a catalogue of Python values (floats incl. "
    "NaN/+-inf/-0.0, ints incl. ones too large for a double, bools, None, numeric and non-numeric "
    "str/bytes, lists/tuples/ranges of any of those with 0-4 elements, nested lists, Decimal incl. "
    "NaN, Fraction, complex, numpy scalars and arrays, dict, set, a generator, a bare object); "
    "1-3 objectives; sampler in {Random, TPE, NSGA-II, QMC, BruteForce}; pruner in {Nop, Median, "
    "SHA, Hyperband}; storage in {in-memory, SQLite, journal file, gRPC over in-memory}; n_jobs "
    "1-3; `catch` a generated subset of the exception classes; recording callbacks, one of which "
    "may raise at a generated trial; a sampler wrapper whose after_trial may raise. A second "
    "generator drives ask() followed by arbitrary tell(trial | number, values, state, "
    "skip_if_finished) sequences incl. repeated tells. Oracle: computed from what the script "
    "did: raised TrialPruned -> PRUNED (value = last reported value iff float-feasible), raised "
    "anything else -> FAIL without values and the exception propagates iff not in catch, "
    "returned rv -> COMPLETE with [float(v)...] iff every element converts, none is NaN and "
    "there is one per objective, else FAIL without values. When optimize returns or raises: no "
    "trial is RUNNING/WAITING, every trial matches, n_trials trials exist when nothing stopped "
    "the loop, callbacks ran exactly once per non-propagating trial with a trial equal to the "
    "stored one; a finished trial is bit-identical (pickle) before and after any tell. "
    "Non-trivial = a run with a trial that raises, prunes or returns a non-float; distinct = "
    "distinct (scripts, configuration)."
)
ASSUMPTIONS = [
    "built-in samplers only; faults are injected into after_trial (the anchored mechanism) but not into before_trial / relative sampling",
    "a callback that raises voids only the exactly-once clause for the trials after it",
    "with n_jobs > 1 which trial numbers exist after a propagating exception is not determined; every trial that exists must still match the script of its number",
]


class CustomError(Exception):
    pass


class SamplerFault(Exception):
    pass


EXC = {"ValueError": ValueError, "KeyError": KeyError, "ZeroDivisionError": ZeroDivisionError, "CustomError": CustomError, "KeyboardInterrupt": KeyboardInterrupt}

scalar = st.one_of(
    st.floats(allow_nan=False, allow_infinity=False, width=32).map(lambda x: {"t": "float", "v": x}),
    st.sampled_from([{"t": "float", "v": float("nan")}, {"t": "float", "v": float("inf")}, {"t": "float", "v": float("-inf")}, {"t": "float", "v": -0.0}]),
    st.integers(-5, 5).map(lambda x: {"t": "int", "v": x}),
    st.sampled_from([{"t": "bigint", "v": 400}, {"t": "bigint", "v": 308}, {"t": "bigint", "v": 309}]),
    st.booleans().map(lambda x: {"t": "bool", "v": x}),
    st.just({"t": "none"}),
    st.sampled_from(["5", "1.5", " 2 ", "abc", "", "nan", "inf", "1e400", "12", "-3", "0x10", "1_0"]).map(lambda x: {"t": "str", "v": x}),
    st.sampled_from([b"5", b"", b"12", b"ab"]).map(lambda x: {"t": "bytes", "v": x}),
    st.sampled_from(["1.5", "NaN", "sNaN", "Infinity", "-0", "1E+400"]).map(lambda x: {"t": "decimal", "v": x}),
    st.sampled_from([[1, 3], [-7, 2], [10**400, 1]]).map(lambda x: {"t": "fraction", "v": x}),
    st.sampled_from([[1.0, 0.0], [0.0, 1.0]]).map(lambda x: {"t": "complex", "v": x}),
    st.sampled_from(["float32", "float64", "int64", "bool_", "float16"]).map(lambda x: {"t": "np_scalar", "dtype": x, "v": 1.25}),
    st.sampled_from([[1.0], [1.0, 2.0], [], [[1.0]], [float("nan")]]).map(lambda x: {"t": "np_array", "v": x}),
    st.sampled_from(["dict", "set", "generator", "object", "emptydict"]).map(lambda x: {"t": x}),
)
_plain = st.sampled_from([float("nan"), 1.0, 0.0, float("inf"), -1.5, 2.0])
value = st.one_of(
    scalar,
    scalar,
    # plain float vectors of the usual lengths (some, all or no component NaN)
    st.lists(_plain, min_size=1, max_size=3).map(lambda x: {"t": "list", "v": [{"t": "float", "v": f} for f in x]}),
    st.lists(_plain, min_size=2, max_size=3).map(lambda x: {"t": "tuple", "v": [{"t": "float", "v": f} for f in x]}),
    st.lists(scalar, max_size=4).map(lambda x: {"t": "list", "v": x}),
    st.lists(scalar, max_size=4).map(lambda x: {"t": "tuple", "v": x}),
    st.integers(0, 4).map(lambda n: {"t": "range", "v": n}),
    st.lists(scalar, min_size=1, max_size=2).map(lambda x: {"t": "list", "v": [{"t": "list", "v": x}]}),
)


def build(v: dict[str, Any]) -> Any:
    import numpy as np

    t = v["t"]
    if t in ("float", "int", "bool", "str", "bytes"):
        return v["v"]
    if t == "bigint":
        return 10 ** v["v"]
    if t == "none":
        return None
    if t == "decimal":
        return decimal.Decimal(v["v"])
    if t == "fraction":
        return fractions.Fraction(v["v"][0], v["v"][1])
    if t == "complex":
        return complex(v["v"][0], v["v"][1])
    if t == "np_scalar":
        return getattr(np, v["dtype"])(v["v"])
    if t == "np_array":
        return np.array(v["v"], dtype=float)
    if t == "dict":
        return {"a": 1.0}
    if t == "emptydict":
        return {}
    if t == "set":
        return {1.0}
    if t == "generator":
        return (x for x in [1.0])
    if t == "object":
        return object()
    if t == "list":
        return [build(x) for x in v["v"]]
    if t == "tuple":
        return tuple(build(x) for x in v["v"])
    if t == "range":
        return range(v["v"])
    raise ValueError(t)


def expected_from_return(rv: Any, n_obj: int) -> tuple[str, list[float] | None]:
    """The statement of C02, executed."""
    vs = list(rv) if isinstance(rv, collections.abc.Sequence) else [rv]
    out = []
    for x in vs:
        try:
            with warnings.catch_warnings():
                warnings.simplefilter("ignore")
                f = float(x)
        except (ValueError, TypeError, OverflowError):
            return "FAIL", None
        if math.isnan(f):
            return "FAIL", None
        out.append(f)
    if len(out) != n_obj:
        return "FAIL", None
    return "COMPLETE", out


@st.composite
def script(draw: Any, n_obj: int) -> dict[str, Any]:
    reports = draw(st.lists(st.tuples(st.integers(0, 6), st.one_of(st.floats(allow_nan=True, width=32), st.sampled_from([float("nan"), float("inf")]))).map(list), max_size=4)) if n_obj == 1 else []
    end = draw(st.sampled_from(["return", "return", "return", "return", "raise", "raise", "prune"]))
    return {
        "suggest": draw(st.lists(st.sampled_from(["a", "b", "c"]), max_size=3, unique=True)),
        "reports": reports,
        "obey_pruner": draw(st.booleans()),
        "user_attr": draw(st.booleans()),
        "end": end,
        "exc": draw(st.sampled_from(sorted(EXC))),
        "raise_after": draw(st.integers(0, 3)),  # how many script items run before a raise
        "rv": draw(value) if end == "return" else None,
    }


@st.composite
def case_optimize(draw: Any) -> dict[str, Any]:
    n_obj = draw(st.sampled_from([1, 1, 2, 3]))
    n = draw(st.integers(1, 8))
    sampler = draw(st.sampled_from(["random", "tpe", "nsgaii", "qmc", "brute"]))
    backend = draw(st.sampled_from(["inmemory", "inmemory", "sqlite", "journal_file", "grpc:inmemory"]))
    if sampler == "brute" and backend.startswith("grpc:"):
        backend = "journal_file"  # (BruteForce through the gRPC proxy: recorded finding of C14/C09)
    return {
        "n_obj": n_obj,
        "scripts": [draw(script(n_obj)) for _ in range(n)],
        "sampler": sampler,
        "pruner": draw(st.sampled_from(["nop", "median", "sha", "hyperband"])),
        "backend": backend,
        "n_jobs": draw(st.sampled_from([1, 1, 1, 2, 3])),
        "catch": draw(st.lists(st.sampled_from(["ValueError", "KeyError", "ZeroDivisionError", "CustomError", "Exception", "LookupError"]), max_size=3, unique=True)),
        "callback_raises_at": draw(st.one_of(st.none(), st.none(), st.integers(0, 7))),
        "after_trial_raises_at": draw(st.one_of(st.none(), st.none(), st.none(), st.integers(0, 7))),
        "seed": draw(st.integers(0, 2**31 - 1)),
    }


def _make(case: dict[str, Any]) -> tuple[Any, Any]:
    import optuna

    S, P = optuna.samplers, optuna.pruners
    sd = case["seed"]
    sampler = {"random": lambda: S.RandomSampler(seed=sd), "tpe": lambda: S.TPESampler(seed=sd, n_startup_trials=2), "nsgaii": lambda: S.NSGAIISampler(seed=sd, population_size=2), "qmc": lambda: S.QMCSampler(seed=sd), "brute": lambda: S.BruteForceSampler(seed=sd)}[case["sampler"]]()
    pruner = {"nop": P.NopPruner, "median": lambda: P.MedianPruner(0, 0), "sha": lambda: P.SuccessiveHalvingPruner(min_resource=1), "hyperband": lambda: P.HyperbandPruner(1, 8)}[case["pruner"]]()
    return sampler, pruner


def run_optimize(case: dict[str, Any], ctx: Ctx) -> None:
    import optuna
    from optuna.trial import TrialState

    optuna.logging.set_verbosity(optuna.logging.CRITICAL)
    warnings.simplefilter("ignore")
    n_obj = case["n_obj"]
    scripts = case["scripts"]
    n_trials = len(scripts)
    lock = threading.Lock()
    did: dict[int, Any] = {}  # number -> what the script did
    catch_classes = tuple({"ValueError": ValueError, "KeyError": KeyError, "ZeroDivisionError": ZeroDivisionError, "CustomError": CustomError, "Exception": Exception, "LookupError": LookupError}[c] for c in case["catch"])

    if case["sampler"] == "brute":
        # BruteForceSampler needs one search space for the whole study (documented): every script
        # suggests the same names, and none dies between two suggestions
        scripts = [{**sc, "suggest": scripts[0]["suggest"], "raise_after": 99} for sc in scripts]

    def objective(trial: Any) -> Any:
        sc = scripts[trial.number % n_trials]
        items = [("suggest", n) for n in sc["suggest"]] + [("report", r) for r in sc["reports"]] + ([("attr", None)] if sc["user_attr"] else [])
        last: dict[int, float] = {}
        for i, (kind, arg) in enumerate(items):
            if sc["end"] == "raise" and i == sc["raise_after"]:
                break
            if kind == "suggest":
                if arg == "c":
                    trial.suggest_categorical("c", ["x", "y"])
                else:
                    trial.suggest_int(arg, 0, 3)
            elif kind == "attr":
                trial.set_user_attr("k", trial.number)
            else:
                step, v = arg
                if step not in last:
                    last[step] = v
                trial.report(v, step)
                if sc["obey_pruner"] and trial.should_prune():
                    with lock:
                        did[trial.number] = ("pruned", dict(last))
                    raise optuna.TrialPruned()
        if sc["end"] == "raise":
            with lock:
                did[trial.number] = ("raised", sc["exc"], dict(last))
            raise EXC[sc["exc"]]("from the objective")
        if sc["end"] == "prune":
            with lock:
                did[trial.number] = ("pruned", dict(last))
            raise optuna.TrialPruned()
        rv = build(sc["rv"])
        exp = expected_from_return(rv, n_obj)
        with lock:
            did[trial.number] = ("returned", exp, sc["rv"])
        return rv

    cb_log: list[Any] = []

    def cb_record(study: Any, ft: Any) -> None:
        with lock:
            cb_log.append((ft.number, ft.state.name, None if ft.values is None else list(ft.values), pickle.dumps((ft.params, ft.user_attrs, sorted(ft.intermediate_values.items())))))

    def cb_raise(study: Any, ft: Any) -> None:
        if case["callback_raises_at"] is not None and ft.number == case["callback_raises_at"]:
            raise CustomError("from a callback")

    fac = backends.factory(ctx.tmpdir())
    try:
        storage = fac.make(case["backend"])
        sampler, pruner = _make(case)
        if case["after_trial_raises_at"] is not None:
            orig = sampler.after_trial

            def after_trial(study: Any, trial: Any, state: Any, values: Any, orig: Any = orig) -> None:
                orig(study, trial, state, values)
                if trial.number == case["after_trial_raises_at"]:
                    raise SamplerFault("from sampler.after_trial")

            sampler.after_trial = after_trial  # type: ignore[method-assign]
        study = optuna.create_study(storage=storage, study_name="c02", directions=["minimize"] * n_obj, sampler=sampler, pruner=pruner)
        raised: BaseException | None = None
        try:
            study.optimize(objective, n_trials=n_trials, n_jobs=case["n_jobs"], catch=catch_classes, callbacks=[cb_record, cb_raise])
        except (Exception, KeyboardInterrupt) as e:
            if isinstance(e, Violation):
                raise
            raised = e
        trials = study.get_trials(deepcopy=True)
        desc = f"sampler={case['sampler']} pruner={case['pruner']} backend={case['backend']} n_jobs={case['n_jobs']} catch={case['catch']} raised={type(raised).__name__ if raised else None}"
        # (1) nothing left RUNNING / WAITING
        bad = [(t.number, t.state.name) for t in trials if not t.state.is_finished()]
        if bad:
            rv = {n: did.get(n) for n, _ in bad}
            raise Violation("trial-left-unfinished", f"{desc}: trials {bad} after optimize {'raised ' + repr(raised) if raised else 'returned'}; scripts did {rv}", case)
        # (2) each trial matches what its script did
        must_propagate = []
        for t in trials:
            d = did.get(t.number)
            if d is None:
                # the objective never ran to a decision point (e.g. sampler raised inside suggest)
                continue
            if d[0] == "pruned":
                lastv = d[1]
                exp_vals = None
                if lastv and n_obj == 1:
                    v = lastv[max(lastv)]
                    if not math.isnan(v):
                        exp_vals = [float(v)]
                exp = ("PRUNED", exp_vals)
            elif d[0] == "raised":
                exp = ("FAIL", None)
                if not (catch_classes and issubclass(EXC[d[1]], catch_classes)):
                    must_propagate.append((t.number, d[1]))
            else:
                exp = d[1]
            if (t.state.name, t.values) != exp and not (t.state.name == exp[0] and deep_eq(t.values, exp[1])):
                raise Violation("terminal-state-wrong", f"{desc}: trial {t.number}: script {d} -> stored state {t.state.name} values {t.values}, expected {exp}", case)
            if t.state == TrialState.FAIL and t.values is not None:
                raise Violation("failed-trial-carries-values", f"{desc}: trial {t.number}: {t.values}", case)
            if t.datetime_complete is None:
                raise Violation("finished-trial-without-datetime_complete", f"{desc}: trial {t.number}", case)
        # (3) propagation
        stoppers = must_propagate or []
        cb_stop = case["callback_raises_at"] is not None and any(t.number == case["callback_raises_at"] for t in trials)
        st_stop = case["after_trial_raises_at"] is not None and any(t.number == case["after_trial_raises_at"] for t in trials)
        if raised is None and (stoppers or st_stop or (cb_stop and not any(n == case["callback_raises_at"] for n, _ in stoppers))):
            raise Violation("exception-did-not-propagate", f"{desc}: uncaught {stoppers} / callback fault {cb_stop} / after_trial fault {st_stop} but optimize returned", case)
        if raised is not None:
            allowed = {EXC[e] for _, e in stoppers} | ({CustomError} if cb_stop else set()) | ({SamplerFault} if st_stop else set())
            # (which exception surfaces when the sampler's after_trial raises is not specified: the
            # statement only requires the trial to be terminal, which is checked above)
            if not st_stop and not any(isinstance(raised, a) for a in allowed):
                raise Violation("unexpected-exception-from-optimize", f"{desc}: {type(raised).__name__}: {raised}; scripts did {did}", case)
        # (4) trial count when nothing stopped the loop
        if raised is None and len(trials) != n_trials and case["sampler"] != "brute":
            raise Violation("wrong-number-of-trials", f"{desc}: {len(trials)} trials for n_trials={n_trials}", case)
        # (5) callbacks: exactly once per trial whose exception did not propagate, with the stored trial
        called = collections.Counter(n for n, *_ in cb_log)
        if any(c > 1 for c in called.values()):
            raise Violation("callback-ran-twice", f"{desc}: {called}", case)
        by_num = {t.number: t for t in trials}
        for n, state, vals, blob in cb_log:
            t = by_num[n]
            if state != t.state.name or not deep_eq(vals, t.values) or blob != pickle.dumps((t.params, t.user_attrs, sorted(t.intermediate_values.items()))):
                raise Violation("callback-saw-different-trial", f"{desc}: trial {n}: callback saw {state} {vals}, stored {t.state.name} {t.values}", case)
        if raised is None:
            missing = [t.number for t in trials if t.number not in called]
            if missing:
                raise Violation("callback-not-run", f"{desc}: trials {missing}", case)
        elif case["n_jobs"] == 1:
            # sequential: every trial before the propagating one had its callbacks
            last = max(by_num)
            missing = [n for n in by_num if n != last and n not in called]
            if missing:
                raise Violation("callback-not-run", f"{desc}: trials {missing} (optimize raised at trial {last})", case)
            prop = [n for n, _ in stoppers] + ([case["after_trial_raises_at"]] if st_stop else [])
            if last in called and last in prop:
                raise Violation("callback-ran-for-propagating-trial", f"{desc}: trial {last}", case)
        kinds = collections.Counter(d[0] if d[0] != "returned" else ("returned-" + d[2]["t"]) for d in did.values())
        ctx.case(
            fp=case,
            nontrivial=any(k != "returned-float" for k in kinds),
            classes=sorted(kinds) + ["sampler:" + case["sampler"], "pruner:" + case["pruner"], case["backend"], f"n_jobs{case['n_jobs']}", "optimize-raised" if raised else "optimize-returned"],
            sample=case,
        )
    finally:
        fac.release()


# ---- ask / tell ------------------------------------------------------------------------------


tell_op = st.fixed_dictionaries(
    {
        "trial": st.integers(0, 5),
        "by_number": st.booleans(),
        "values": st.one_of(st.none(), value),
        "state": st.sampled_from([None, None, "COMPLETE", "PRUNED", "FAIL", "RUNNING", "WAITING"]),
        "skip": st.booleans(),
    }
)


@st.composite
def case_asktell(draw: Any) -> dict[str, Any]:
    return {
        "n_obj": draw(st.sampled_from([1, 1, 2])),
        "n_ask": draw(st.integers(1, 4)),
        "ops": draw(st.lists(tell_op, min_size=1, max_size=10)),
        "backend": draw(st.sampled_from(["inmemory", "sqlite", "journal_file", "grpc:inmemory"])),
        "reports": draw(st.lists(st.one_of(st.none(), st.floats(allow_nan=True, width=32)), min_size=4, max_size=4)),
    }


def run_asktell(case: dict[str, Any], ctx: Ctx) -> None:
    import optuna
    from optuna.trial import TrialState

    optuna.logging.set_verbosity(optuna.logging.CRITICAL)
    warnings.simplefilter("ignore")
    n_obj = case["n_obj"]
    fac = backends.factory(ctx.tmpdir())
    try:
        study = optuna.create_study(storage=fac.make(case["backend"]), study_name="c02t", directions=["minimize"] * n_obj, sampler=optuna.samplers.RandomSampler(seed=0))
        trials = []
        for i in range(case["n_ask"]):
            t = study.ask()
            t.suggest_int("a", 0, 3)
            r = case["reports"][i]
            if r is not None and n_obj == 1:
                t.report(r, 1)
            trials.append(t)
        finished_tells = 0
        for op in case["ops"]:
            idx = op["trial"] % len(trials)
            t = trials[idx]
            before = study._storage.get_trial(t._trial_id)
            blob = pickle.dumps(before)
            was_finished = before.state.is_finished()
            arg = t.number if op["by_number"] else t
            vals = None if op["values"] is None else build(op["values"])
            state = None if op["state"] is None else getattr(TrialState, op["state"])
            try:
                ret = study.tell(arg, vals, state=state, skip_if_finished=op["skip"])
                outcome: Any = ("ok", ret)
            except (ValueError, TypeError) as e:
                outcome = ("exc", type(e).__name__)
            except Exception as e:
                outcome = ("EXC", f"{type(e).__name__}: {e}")
            after = study._storage.get_trial(t._trial_id)
            desc = f"backend={case['backend']} tell(trial {t.number}{' by number' if op['by_number'] else ''}, values={op['values']}, state={op['state']}, skip_if_finished={op['skip']})"
            if outcome[0] == "EXC":
                raise Violation("tell-raises-undocumented-exception", f"{desc}: {outcome[1]}; trial now {after.state.name}", case)
            if was_finished:
                finished_tells += 1
                if pickle.dumps(after) != blob:
                    raise Violation("tell-altered-finished-trial", f"{desc}: before {before} after {after}", case)
                if outcome[0] == "ok" and not op["skip"]:
                    raise Violation("tell-on-finished-trial-did-not-raise", f"{desc}", case)
                continue
            # a RUNNING trial: either the tell is rejected (ValueError, trial stays RUNNING and
            # unchanged) or the trial becomes terminal exactly as the statement says
            if outcome[0] == "exc":
                if pickle.dumps(after) != blob:
                    raise Violation("rejected-tell-changed-trial", f"{desc}: {before} -> {after}", case)
                continue
            if not after.state.is_finished():
                raise Violation("tell-left-trial-unfinished", f"{desc}: {after.state.name}", case)
            if state is None:
                exp = expected_from_return(vals, n_obj) if vals is not None else ("FAIL", None)
                if (after.state.name, after.values) != exp and not (after.state.name == exp[0] and deep_eq(after.values, exp[1])):
                    raise Violation("terminal-state-wrong", f"{desc}: stored {after.state.name} {after.values}, expected {exp}", case)
            elif state == TrialState.COMPLETE:
                exp = expected_from_return(vals, n_obj)
                if exp[0] != "COMPLETE" or not deep_eq(after.values, exp[1]) or after.state != TrialState.COMPLETE:
                    raise Violation("tell-complete-with-infeasible-values", f"{desc}: stored {after.state.name} {after.values}, values are {exp}", case)
            elif state == TrialState.FAIL:
                if after.state != TrialState.FAIL or after.values is not None:
                    raise Violation("terminal-state-wrong", f"{desc}: stored {after.state.name} {after.values}", case)
            elif state == TrialState.PRUNED:
                if after.state != TrialState.PRUNED:
                    raise Violation("terminal-state-wrong", f"{desc}: stored {after.state.name}", case)
            ret = outcome[1]
            if ret.state != after.state or not deep_eq(ret.values, after.values):
                raise Violation("tell-return-differs-from-stored", f"{desc}: returned {ret.state.name} {ret.values}", case)
        ctx.case(fp=case, nontrivial=finished_tells > 0, classes=[case["backend"], "repeated-tell" if finished_tells else "single-tells"], sample=case)
    finally:
        fac.release()


CHECKS = [
    Check("optimize", lambda tier: case_optimize(), run_optimize, {"quick": 4000, "thorough": 120000}, budget_s={"quick": 150, "thorough": 2400}),
    Check("asktell", lambda tier: case_asktell(), run_asktell, {"quick": 2400, "thorough": 60000}, budget_s={"quick": 100, "thorough": 1800}),
]
